"""The integral descriptor generators interpreted on sample IR (C05, C06, C18).

GEN-INTEGRAL  C.integral.generator and numba.integral.generator are interpreted from source (the kernel body
              generator, backend and formatter are stubs: their output is an opaque marker) for every scalar
              type and a set of sample IntegralIR records, and the *emitted text* is read back:
                - the object is called <integral name>_<cell type name>, the name the form generator stores in
                  form_integrals (GEN-FORM), and the declaration announces the same name;
                - exactly the kernel slot of the scalar type holds tabulate_tensor_<object>, the other three are
                  NULL, and that function is defined with (scalar*, const scalar*, const scalar*, const real*, ...);
                - enabled_coefficients is NULL or a declared bool array with one 0/1 per form coefficient;
                - needs_facet_permutations / coordinate_element_hash / domain carry the IR values;
                - the numba class carries the same values.
"""

from __future__ import annotations

import re

from ..absint import Interp, Node, PyNative, Raised, _PyCall
from ..lnodes_model import load_classes
from ..model import AnalysisError
from ..npmodel import CTYPE, DT, REALOF, install
from ..registry import rule


class _Cell(PyNative):
    def __init__(self, name, value):
        self.name = name
        self.value = value

    def __int__(self):
        return self.value

    def __index__(self):
        return self.value

    def __str__(self):
        return f"CellType.{self.name}"


MARK = "/*BODY-MARKER*/"
TABLE_NAME = "FE0_C0_Q083"
TABLE_DECL = "/*DECLARATION-OF-TABLE FE0_C0_Q083*/"


def _interp(repo, modname, scalar):
    it = install(Interp(repo, load_classes(repo), primary=modname))
    it.overrides["logger"] = Node("Logger", info=_PyCall(lambda *a: None), debug=_PyCall(lambda *a: None))
    it.overrides["sys.platform"] = "linux"
    it.overrides["FFCXBackend"] = _PyCall(lambda ir, options: Node("FFCXBackend", ir=ir, options=options))
    # the body generator returns a statement list that starts with a constant table; the formatter stub prints a table declaration as
    # TABLE_DECL and everything else as MARK, so that the place where each of them lands in the emitted text can be read back
    def body(domain):
        tbl = Node("ArrayDecl", symbol=Node("Symbol", name=TABLE_NAME, dtype="DataType.REAL"), const=True, sizes=(1,), values=[1.0], dtype="DataType.REAL")
        return Node("StatementList", statements=[tbl, Node("Comment", comment="kernel body")], domain=domain)

    def fmt(parts):
        if isinstance(parts, Node) and parts.cls == "ArrayDecl":
            return TABLE_DECL
        decls = [TABLE_DECL for p_ in (parts.f.get("statements") or []) if isinstance(p_, Node) and p_.cls == "ArrayDecl"] if isinstance(parts, Node) else []
        return "".join(decls) + MARK
    it.overrides["IntegralGenerator"] = _PyCall(lambda ir, backend: Node("IntegralGenerator", generate=_PyCall(body)))
    it.overrides["Formatter"] = _PyCall(lambda st: _PyCall(fmt))
    it.overrides["tensor_sizes"] = _PyCall(lambda ir: Node("TensorSizes", A="nA", w="nw", c="nc", coords="nx", local_index="nl", permutation="np_"))
    import string
    it.overrides["template_keys"] = _PyCall(lambda t: set(f for _, f, _, _ in string.Formatter().parse(t) if f))
    return it


@rule(
    "GEN-INTEGRAL",
    ["C06", "C05", "C18", "C20", "C09", "C19"],
    "the C and numba integral generators, interpreted for every scalar type on sample IntegralIR records, emit a "
    "descriptor named <integral>_<cell type> whose only non-NULL kernel slot is the one of the scalar type and points "
    "to the kernel defined in the same text with scalar/real parameter types; enabled_coefficients, "
    "needs_facet_permutations, coordinate_element_hash and domain carry the IR values in both backends",
    min_instances=20,
)
def gen_integral(repo, res):
    samples = {
        "three coefficients, middle one disabled, permutations needed": dict(name="integral_abc", enabled=[True, False, True], perm=True, hash=1234567890123, cell=_Cell("triangle", 2)),
        "no coefficients, no permutations": dict(name="integral_q", enabled=[], perm=False, hash=42, cell=_Cell("hexahedron", 5)),
        "single enabled coefficient on a facet cell": dict(name="integral_7f", enabled=[True], perm=False, hash=99, cell=_Cell("interval", 1)),
    }
    seen = {}
    for be in ("C", "numba"):
        modname = f"ffcx.codegeneration.{be}.integral"
        mod = repo.mod(modname)
        g = mod.func("generator")
        res.functions.add(g.key)
        loc = mod.line(g.node)
        for label, s in samples.items():
            for scalar in ("float32", "float64", "complex64", "complex128"):
                key = f"{g.key}:{label}:{scalar}"
                res.ob(key)
                props = ("C06", "C05", "C18") if be == "C" else ("C18", "C20")
                # the rest of the IR, as far as a generator may consult it: coefficient i is evaluated through a table of type varying (i = 0),
                # not at all (disabled ones) or through a `ones` table (a piecewise-constant coefficient, read directly as w[offset]) for the last
                coefs = [Node("Coefficient", name=f"w{i}") for i in range(len(s["enabled"]))]
                fnodes = {}
                for i, (c_, en) in enumerate(zip(coefs, s["enabled"])):
                    if en:
                        tt = "ones" if (i == len(coefs) - 1 and len(coefs) > 1) else "varying"
                        fnodes[len(fnodes)] = {"expression": c_, "status": "piecewise" if tt == "ones" else "varying", "mt": Node("ModifiedTerminal", terminal=c_, restriction=None),
                                               "tr": Node("UniqueTableReferenceT", name=f"FE{i}", ttype=tt, is_permuted=False)}
                fnodes[len(fnodes)] = {"expression": Node("Sum"), "status": "varying"}
                graph = Node("ExpressionGraph", nodes=fnodes, out_edges={k: [] for k in fnodes}, in_edges={k: [] for k in fnodes})
                rule_ = Node("QuadratureRule", id=_PyCall(lambda: "r0"))
                ir = Node("IntegralIR", enabled_coefficients=list(s["enabled"]), part="TensorPart.full", rank=2,
                          expression=Node("CommonExpressionIR", integral_type="cell", entity_type="cell", name=s["name"], needs_facet_permutations=s["perm"],
                                          coordinate_element_hash=s["hash"], coefficient_numbering={c_: i for i, c_ in enumerate(coefs)},
                                          coefficient_offsets={c_: 3 * i for i, c_ in enumerate(coefs)}, original_constant_offsets={}, tensor_shape=[3, 3],
                                          integrand={(s["cell"], rule_): {"factorization": graph, "modified_arguments": [], "block_contributions": {}}},
                                          unique_tables={}, unique_table_types={}, number_coordinate_dofs=3))
                it = _interp(repo, modname, scalar)
                try:
                    out = it.call_f(g, [ir, s["cell"], {"scalar_type": scalar}])
                except Raised as e:
                    res.fail(key, f"{be} integral generator raises ({e.what}) for scalar type {scalar} on `{label}`", loc, props=props)
                    continue
                if not isinstance(out, tuple) or not all(isinstance(t, str) for t in out):
                    raise AnalysisError(f"{be} integral generator did not return a tuple of texts")
                text = out[-1]
                obj = f"{s['name']}_{s['cell'].name}"
                fail = lambda msg: res.fail(key, f"{be} `{label}` [{scalar}]: {msg}", loc, props=props)  # noqa: E731
                if MARK not in text:
                    fail("the formatted kernel body is not part of the emitted text")
                # the constant tables of a kernel are named per quadrature rule and element, not per kernel: they must stay inside the kernel function
                fstart = re.search(rf"\bvoid\s+tabulate_tensor_{re.escape(obj)}\s*\(" if be == "C" else rf"(?m)^def\s+tabulate_tensor_{re.escape(obj)}\s*\(", text)
                fend = re.search(rf"\bufcx_integral\s+{re.escape(obj)}\s*=" if be == "C" else rf"(?m)^class\s+{re.escape(obj)}\b", text)
                if text.count(TABLE_DECL) != 1 or not fstart or not fend or not (fstart.end() < text.index(TABLE_DECL) < fend.start()):
                    res.fail(key, f"{be} `{label}` [{scalar}]: the declaration of the kernel's constant table {TABLE_NAME} is emitted {text.count(TABLE_DECL)} time(s)"
                             + ("" if text.count(TABLE_DECL) != 1 else ", outside the kernel function") + ": table names are unique within a kernel only (rule id, element), "
                             "at file / module level the tables of two kernels of one module collide (C: redefinition; Python: the later one silently replaces the earlier)",
                             loc, props=("C18", "C19") if be == "numba" else ("C19", "C18"))
                if be == "C":
                    if not re.search(rf"\bextern\s+ufcx_integral\s+{re.escape(obj)}\s*;", out[0]):
                        fail(f"the declaration does not announce `ufcx_integral {obj}` (the object the form's form_integrals table points to)")
                    m = re.search(rf"\bufcx_integral\s+{re.escape(obj)}\s*=\s*\{{(.*?)\n\}};", text, re.S)
                    if not m:
                        fail(f"no definition of `ufcx_integral {obj}`: the form descriptor refers to <integral name>_<cell type name>")
                        continue
                    inits = re.findall(r"\.(\w+)\s*=\s*([^,\n]+)", m.group(1))
                    d = {}
                    for a, v in inits:
                        d.setdefault(a, []).append(v.strip())
                    slots = {t: d.get(f"tabulate_tensor_{t}", []) for t in ("float32", "float64", "complex64", "complex128")}
                    want = {t: [f"tabulate_tensor_{obj}" if t == scalar else "NULL"] for t in slots}
                    if slots != want:
                        res.fail(key, f"{be} `{label}` [{scalar}]: kernel slots are {slots}; exactly the slot of the scalar type must hold tabulate_tensor_{obj}, the others NULL",
                                 loc, props=props + ("C09", "C20"))
                    fm = re.search(rf"\bvoid\s+tabulate_tensor_{re.escape(obj)}\s*\(([^)]*)\)", text)
                    if not fm:
                        fail(f"the kernel function tabulate_tensor_{obj} is not defined in the emitted source")
                    else:
                        params = [re.sub(r"\s+", " ", p_).strip() for p_ in fm.group(1).split(",")]
                        st, rt = CTYPE[scalar], CTYPE[REALOF[scalar]]
                        want_p = [f"{st}* restrict A", f"const {st}* restrict w", f"const {st}* restrict c", f"const {rt}* restrict coordinate_dofs",
                                  "const int* restrict entity_local_index", "const uint8_t* restrict quadrature_permutation", "void* custom_data"]
                        if params != want_p:
                            res.fail(key, f"{be} `{label}` [{scalar}]: kernel parameters are {params}; the ufcx_tabulate_tensor_{scalar} contract is {want_p}", loc,
                                     props=props + ("C09", "C20"))
                    ec = d.get("enabled_coefficients", [])
                    if not s["enabled"]:
                        if ec != ["NULL"]:
                            fail(f"enabled_coefficients = {ec} for an integral of a form without coefficients (expected NULL)")
                    else:
                        am = re.search(rf"\bbool\s+{re.escape(ec[0])}\s*\[(\d+)\]\s*=\s*\{{([^}}]*)\}}", text) if len(ec) == 1 else None
                        if not am:
                            fail(f"enabled_coefficients = {ec} does not name a bool array declared in the emitted source")
                        else:
                            vals = [x.strip() for x in am.group(2).split(",")]
                            if int(am.group(1)) != len(s["enabled"]) or vals != ["1" if e_ else "0" for e_ in s["enabled"]]:
                                fail(f"enabled_coefficients array is [{am.group(1)}] {vals}; the IR says {s['enabled']}")
                    got = (d.get("needs_facet_permutations"), d.get("coordinate_element_hash"), d.get("domain"))
                    want_f = (["true" if s["perm"] else "false"], [f"UINT64_C({s['hash']})"], [str(s["cell"].value)])
                    if got != want_f:
                        fail(f"(needs_facet_permutations, coordinate_element_hash, domain) = {got}, the IR gives {want_f}")
                    unknown = sorted(set(d) - {"enabled_coefficients", "needs_facet_permutations", "coordinate_element_hash", "domain"} - {f"tabulate_tensor_{t}" for t in slots})
                    if unknown:
                        fail(f"initialises unknown field(s) {unknown}")
                    seen[(be, label, scalar)] = (list(s["enabled"]), s["perm"], s["hash"], s["cell"].value)
                else:
                    m = re.search(rf"(?m)^class\s+{re.escape(obj)}\b[^\n]*:\n((?:[ \t]+[^\n]*\n|\n)+)", text)
                    if not m:
                        fail(f"no class `{obj}`: the numba form refers to <integral name>_<cell type name>")
                        continue
                    attrs = dict(re.findall(r"(?m)^\s+(\w+)\s*=\s*(.+?)\s*$", m.group(1)))
                    if not re.search(rf"(?m)^def\s+tabulate_tensor_{re.escape(obj)}\s*\(", text) or attrs.get("tabulate_tensor") != f"tabulate_tensor_{obj}":
                        fail(f"tabulate_tensor = {attrs.get('tabulate_tensor')}; must be the function tabulate_tensor_{obj} defined in the same text")
                    try:
                        ec = [int(x) for x in attrs.get("enabled_coefficients", "?").strip("[]").split(",") if x.strip()]
                    except ValueError:
                        ec = attrs.get("enabled_coefficients")
                    if ec != [1 if e_ else 0 for e_ in s["enabled"]]:
                        fail(f"enabled_coefficients = {attrs.get('enabled_coefficients')}; the IR says {s['enabled']}")
                    got = (attrs.get("needs_facet_permutations"), attrs.get("coordinate_element_hash"), attrs.get("domain"))
                    want_f = ("True" if s["perm"] else "False", str(s["hash"]), str(s["cell"].value))
                    if got != want_f:
                        fail(f"(needs_facet_permutations, coordinate_element_hash, domain) = {got}, the IR gives {want_f}")
                    for arr, n in (("A", "nA"), ("w", "nw"), ("c", "nc"), ("coordinate_dofs", "nx"), ("entity_local_index", "nl"), ("quadrature_permutation", "np_")):
                        if not re.search(rf"(?m)^\s+{arr}\s*=\s*numba\.carray\(\s*_{arr}\s*,\s*\(?\s*{n}\s*,?\s*\)?\s*\)", text):
                            fail(f"the kernel does not view argument _{arr} as an array of the extent tensor_sizes gives it ({n})")
                            break


@rule(
    "GEN-EXPRESSION-DESC",
    ["C04", "C05", "C09", "C18", "C20"],
    "the C and numba expression generators, interpreted for every scalar type on sample ExpressionIR records (three coefficients "
    "of an original six, four constants, 5 points in 2D, value shape (6,), one argument; and a matrix-valued expression without "
    "coefficients or arguments), emit a descriptor <name> whose only kernel slot is the one of the scalar type and points to a kernel defined in "
    "the same text with scalar/real parameter types; counts, positions, names, points (row-major, exact), value shape, rank, "
    "coordinate element hash carry the IR values in both backends; the alias is declared and points to the descriptor",
    min_instances=24,
)
def gen_expression_desc(repo, res):
    from ..npmodel import NDArr, NPFloat32

    c0, c1, c2 = Node("Coefficient", name="f"), Node("Coefficient", name="g"), Node("Coefficient", name="h")
    # like-typed descriptor fields take pairwise different values in at least one sample (3 coefficients, 4 constants, 5 points, dimension 2,
    # one value axis, one argument; the second sample separates value rank 2 from tensor rank 0)
    samples = {
        "three coefficients, four constants, 5 points in 2D, shape (6,), one argument":
            dict(name="expression_abc", alias="expression_p_flux", shape=(6,), tshape=[4], numbering={c0: 0, c1: 1, c2: 2}, positions=[0, 2, 5], cnames=["f", "g", "h"],
                 knames=["kappa", "mu", "c2", "c3"], hash=777000777,
                 points=NDArr([[0.25, 0.5], [0.1, 0.7], [1.0 / 3.0, 0.125], [0.0, 1.0], [0.75, 0.0625]], (5, 2))),
        # points handed over in single precision: the tables are tabulated at the float32 values, the descriptor must list the same numbers
        "points given as a float32 array":
            dict(name="expression_f", alias="expression_p_1", shape=(), tshape=[], numbering={c0: 0}, positions=[0], cnames=["f"], knames=[], hash=9,
                 points=NDArr([[NPFloat32(0.1), NPFloat32(0.7)], [NPFloat32(0.3), NPFloat32(0.25)]], (2, 2))),
        "matrix-valued, no coefficients or constants, one point in 3D, no argument":
            dict(name="expression_q", alias="expression_p_0", shape=(2, 2), tshape=[], numbering={}, positions=[], cnames=[], knames=[], hash=5,
                 points=NDArr([[0.5, 0.25, 0.125]], (1, 3))),
    }
    for be in ("C", "numba"):
        modname = f"ffcx.codegeneration.{be}.expression"
        mod = repo.mod(modname)
        g = mod.func("generator")
        res.functions.add(g.key)
        loc = mod.line(g.node)
        props = ("C04", "C20") if be == "C" else ("C18", "C20")
        for label, s in samples.items():
            for scalar in ("float32", "float64", "complex64", "complex128"):
                key = f"{g.key}:{label}:{scalar}"
                res.ob(key)
                rule_ = Node("QuadratureRule", points=s["points"], id=_PyCall(lambda: "r0"))
                ir = Node("ExpressionIR", original_coefficient_positions=list(s["positions"]), coefficient_names=list(s["cnames"]), constant_names=list(s["knames"]),
                          name_from_uflfile=s["alias"],
                          expression=Node("CommonExpressionIR", integral_type="expression", entity_type="cell", name=s["name"], shape=tuple(s["shape"]), tensor_shape=list(s["tshape"]),
                                          coefficient_numbering=dict(s["numbering"]), coefficient_offsets={c_: 3 * i for c_, i in s["numbering"].items()},
                                          original_constant_offsets={}, coordinate_element_hash=s["hash"], needs_facet_permutations=False,
                                          integrand={("CellType.triangle", rule_): {"factorization": Node("ExpressionGraph"), "modified_arguments": [], "block_contributions": {}}},
                                          unique_tables={}, unique_table_types={}, number_coordinate_dofs=3))
                it = _interp(repo, modname, scalar)
                it.overrides["ExpressionGenerator"] = _PyCall(lambda ir_, backend: Node("ExpressionGenerator", generate=_PyCall(lambda: Node("Parts"))))
                try:
                    out = it.call_f(g, [ir, {"scalar_type": scalar}])
                except Raised as e:
                    res.fail(key, f"{be} expression generator raises ({e.what}) for scalar type {scalar} on `{label}`", loc, props=props)
                    continue
                if not isinstance(out, tuple) or not all(isinstance(t, str) for t in out):
                    raise AnalysisError(f"{be} expression generator did not return a tuple of texts")
                text = out[-1]
                obj = s["name"]
                pts = [float(v) for row in s["points"].tolist() for v in row]
                fail = lambda msg: res.fail(key, f"{be} `{label}` [{scalar}]: {msg}", loc, props=props)  # noqa: E731
                if MARK not in text:
                    fail("the formatted kernel body is not part of the emitted text")

                def floats(txt):
                    try:
                        return [float(x) for x in txt.split(",") if x.strip()]
                    except ValueError:
                        return None

                def strings(txt):
                    return re.findall(r'"([^"]*)"', txt)

                if be == "C":
                    if not re.search(rf"\bextern\s+ufcx_expression\s+{re.escape(obj)}\s*;", out[0]) or not re.search(rf"\bextern\s+ufcx_expression\s*\*\s*{re.escape(s['alias'])}\s*;", out[0]):
                        fail(f"the declaration does not announce `ufcx_expression {obj}` and its alias `ufcx_expression* {s['alias']}`")
                    m = re.search(rf"\bufcx_expression\s+{re.escape(obj)}\s*=\s*\{{(.*?)\n\}};", text, re.S)
                    if not m:
                        fail(f"no definition of `ufcx_expression {obj}`")
                        continue
                    d = {}
                    for a, v in re.findall(r"\.(\w+)\s*=\s*([^,\n]+)", m.group(1)):
                        d.setdefault(a, []).append(v.strip())
                    slots = {a: v for a, v in d.items() if a.startswith("tabulate_tensor_")}
                    if slots != {f"tabulate_tensor_{scalar}": [f"tabulate_tensor_{obj}"]}:
                        res.fail(key, f"{be} `{label}` [{scalar}]: kernel slots are {slots}; exactly .tabulate_tensor_{scalar} must hold tabulate_tensor_{obj}", loc, props=props + ("C09",))
                    fm = re.search(rf"\bvoid\s+tabulate_tensor_{re.escape(obj)}\s*\(([^)]*)\)", text)
                    if not fm:
                        fail(f"the kernel function tabulate_tensor_{obj} is not defined in the emitted source")
                    else:
                        params = [re.sub(r"\s+", " ", p_).strip() for p_ in fm.group(1).split(",")]
                        st, rt = CTYPE[scalar], CTYPE[REALOF[scalar]]
                        want_p = [f"{st}* restrict A", f"const {st}* restrict w", f"const {st}* restrict c", f"const {rt}* restrict coordinate_dofs",
                                  "const int* restrict entity_local_index", "const uint8_t* restrict quadrature_permutation", "void* custom_data"]
                        if params != want_p:
                            res.fail(key, f"{be} `{label}` [{scalar}]: kernel parameters are {params}; the ufcx_tabulate_tensor_{scalar} contract is {want_p}", loc, props=props + ("C09",))
                    scal = {k_: d.get(k_) for k_ in ("num_coefficients", "num_constants", "num_points", "entity_dimension", "num_components", "rank", "coordinate_element_hash")}
                    want_s = {"num_coefficients": [str(len(s["numbering"]))], "num_constants": [str(len(s["knames"]))], "num_points": [str(s["points"].shape[0])],
                              "entity_dimension": [str(s["points"].shape[1])], "num_components": [str(len(s["shape"]))], "rank": [str(len(s["tshape"]))],
                              "coordinate_element_hash": [f"UINT64_C({s['hash']})"]}
                    if scal != want_s:
                        bad = {k_: (scal[k_], want_s[k_]) for k_ in scal if scal[k_] != want_s[k_]}
                        fail("descriptor fields differ from the IR (field: emitted, expected): " + "; ".join(f"{k_}: {a_}, {b_}" for k_, (a_, b_) in bad.items()))

                    def array(field, ctype_re):
                        nm = d.get(field, [])
                        if len(nm) != 1:
                            return None, None
                        if nm[0] == "NULL":
                            return "NULL", None
                        am = re.search(rf"{ctype_re}\s+{re.escape(nm[0])}\s*\[(\d+)\]\s*=\s*\{{([^}}]*)\}}", text)
                        return (int(am.group(1)), am.group(2)) if am else (None, None)

                    n_, body_ = array("points", r"\bdouble")
                    if n_ != len(pts) or floats(body_ or "") != pts:
                        fail(f"points array is [{n_}] {{{(body_ or '')[:80]}}}; the IR's points, flattened row-major, are {pts}")
                    for field, ctype_re, want_l, conv in (("value_shape", r"\bint", list(s["shape"]), lambda t: [int(x) for x in t.split(",") if x.strip()]),
                                                          ("original_coefficient_positions", r"\bint", list(s["positions"]), lambda t: [int(x) for x in t.split(",") if x.strip()]),
                                                          ("coefficient_names", r"\bconst\s+char\s*\*", list(s["cnames"]), strings),
                                                          ("constant_names", r"\bconst\s+char\s*\*", list(s["knames"]), strings)):
                        n_, body_ = array(field, ctype_re)
                        if not want_l:
                            if n_ != "NULL":
                                fail(f"{field} = {d.get(field)} for an empty list (expected NULL)")
                            continue
                        try:
                            got_l = conv(body_) if body_ is not None else None
                        except ValueError:
                            got_l = None
                        if n_ != len(want_l) or got_l != want_l:
                            res.fail(key, f"{be} `{label}` [{scalar}]: {field} names an array [{n_}] {{{body_}}}; the IR says {want_l}", loc,
                                     props=props + (("C05",) if field != "value_shape" else ()))
                    if not re.search(rf"\bufcx_expression\s*\*\s*{re.escape(s['alias'])}\s*=\s*&\s*{re.escape(obj)}\s*;", text):
                        fail(f"the alias `{s['alias']}` is not defined as a pointer to {obj}")
                    unknown = sorted(set(d) - set(want_s) - {"points", "value_shape", "original_coefficient_positions", "coefficient_names", "constant_names"} - set(slots))
                    if unknown:
                        fail(f"initialises unknown field(s) {unknown}")
                else:
                    m = re.search(rf"(?m)^class\s+{re.escape(obj)}\b[^\n]*:\n((?:[ \t]+[^\n]*\n|\n)+)", text)
                    if not m:
                        fail(f"no class `{obj}`")
                        continue
                    attrs = dict(re.findall(r"(?m)^\s+(\w+)\s*=\s*(.+?)\s*$", m.group(1)))
                    if not re.search(rf"(?m)^def\s+tabulate_tensor_{re.escape(obj)}\s*\(", text) or attrs.get("tabulate_tensor") != f"tabulate_tensor_{obj}":
                        fail(f"tabulate_tensor = {attrs.get('tabulate_tensor')}; must be the function tabulate_tensor_{obj} defined in the same text")
                    want_a = {"num_coefficients": str(len(s["numbering"])), "num_constants": str(len(s["knames"])), "num_points": str(s["points"].shape[0]),
                              "entity_dimension": str(s["points"].shape[1]), "num_components": str(len(s["shape"])), "rank": str(len(s["tshape"])),
                              "coordinate_element_hash": str(s["hash"])}
                    bad = {k_: (attrs.get(k_), v_) for k_, v_ in want_a.items() if attrs.get(k_) != v_}
                    if bad:
                        fail("class attributes differ from the IR (attribute: emitted, expected): " + "; ".join(f"{k_}: {a_}, {b_}" for k_, (a_, b_) in bad.items()))
                    if floats(attrs.get("points", "?").strip("[]")) != pts:
                        fail(f"points = {attrs.get('points')}; the IR's points, flattened row-major, are {pts}")
                    for field, want_l, conv in (("value_shape", list(s["shape"]), lambda t: [int(x) for x in t.strip("[]").split(",") if x.strip()]),
                                                ("original_coefficient_positions", list(s["positions"]), lambda t: [int(x) for x in t.strip("[]").split(",") if x.strip()]),
                                                ("coefficient_names", list(s["cnames"]), strings), ("constant_names", list(s["knames"]), strings)):
                        try:
                            got_l = conv(attrs.get(field, "?"))
                        except ValueError:
                            got_l = None
                        if got_l != want_l:
                            res.fail(key, f"{be} `{label}` [{scalar}]: {field} = {attrs.get(field)}; the IR says {want_l}", loc, props=props + (("C05",) if field != "value_shape" else ()))
                    if not re.search(rf"(?m)^{re.escape(s['alias'])}\s*=\s*{re.escape(obj)}\s*$", text):
                        fail(f"the alias `{s['alias']}` is not bound to the class {obj}")
                    for arr, n in (("A", "nA"), ("w", "nw"), ("c", "nc"), ("coordinate_dofs", "nx"), ("entity_local_index", "nl"), ("quadrature_permutation", "np_")):
                        if not re.search(rf"(?m)^\s+{arr}\s*=\s*numba\.carray\(\s*_{arr}\s*,\s*\(?\s*{n}\s*,?\s*\)?\s*\)", text):
                            fail(f"the kernel does not view argument _{arr} as an array of the extent tensor_sizes gives it ({n})")
                            break


def sample_kernel_text(repo, be: str, kind: str, scalar: str = "float64"):
    """(emitted text, object name, generator Func) of the `kind` ("integral" / "expression") generator of backend `be`, interpreted on a
    small sample IR with the kernel body replaced by MARK. Raises Raised / AnalysisError like the interpreter does."""
    out, obj, g = sample_generator_output(repo, be, kind, scalar)
    return out[-1], obj, g


def sample_generator_output(repo, be: str, kind: str, scalar: str = "float64"):
    """(the tuple of texts the generator returns, object name, generator Func); see sample_kernel_text."""
    from ..npmodel import NDArr

    modname = f"ffcx.codegeneration.{be}.{kind}"
    g = repo.mod(modname).func("generator")
    it = _interp(repo, modname, scalar)
    rule_ = Node("QuadratureRule", points=NDArr([[0.25, 0.5]], (1, 2)), id=_PyCall(lambda: "r0"))
    cell = _Cell("triangle", 2)
    c0 = Node("Coefficient", name="f")
    common = dict(entity_type="cell", needs_facet_permutations=False, coordinate_element_hash=7, coefficient_numbering={c0: 0}, coefficient_offsets={c0: 0},
                  original_constant_offsets={}, unique_tables={}, unique_table_types={}, number_coordinate_dofs=3)
    graph = Node("ExpressionGraph", nodes={}, out_edges={}, in_edges={})
    if kind == "integral":
        ir = Node("IntegralIR", enabled_coefficients=[True], part="TensorPart.full", rank=1,
                  expression=Node("CommonExpressionIR", integral_type="cell", name="integral_s", tensor_shape=[3], shape=(),
                                  integrand={(cell, rule_): {"factorization": graph, "modified_arguments": [], "block_contributions": {}}}, **common))
        out = it.call_f(g, [ir, cell, {"scalar_type": scalar}])
        obj = "integral_s_triangle"
    else:
        it.overrides["ExpressionGenerator"] = _PyCall(lambda ir_, backend: Node("ExpressionGenerator", generate=_PyCall(lambda: Node("Parts"))))
        ir = Node("ExpressionIR", original_coefficient_positions=[0], coefficient_names=["f"], constant_names=[], name_from_uflfile="expression_p_0",
                  expression=Node("CommonExpressionIR", integral_type="expression", name="expression_s", tensor_shape=[], shape=(),
                                  integrand={("CellType.triangle", rule_): {"factorization": graph, "modified_arguments": [], "block_contributions": {}}}, **common))
        out = it.call_f(g, [ir, {"scalar_type": scalar}])
        obj = "expression_s"
    if not isinstance(out, tuple) or not all(isinstance(t, str) for t in out):
        raise AnalysisError(f"{be} {kind} generator did not return a tuple of texts")
    return out, obj, g


def sample_file_output(repo, be: str, scalar: str = "float64"):
    """what the file generator of backend `be` returns for the given scalar type (interpreted; version strings are stand-ins)"""
    import textwrap

    modname = f"ffcx.codegeneration.{be}.file"
    g = repo.mod(modname).func("generator")
    it = _interp(repo, modname, scalar)
    it.overrides["FFCX_VERSION"] = "0.0.test"
    it.overrides["UFC_VERSION"] = "0.0.ufcx"
    it.overrides["pprint.pformat"] = _PyCall(lambda o, *a, **k: repr(o))
    it.overrides["textwrap.indent"] = _PyCall(lambda t, p_, *a: textwrap.indent(t, p_))
    return it.call_f(g, [{"scalar_type": scalar, "part": "full"}]), g


def sample_form_output(repo, be: str):
    """what the form generator of backend `be` returns on a small FormIR (a functional with one cell integral)"""
    import string

    modname = f"ffcx.codegeneration.{be}.form"
    g = repo.mod(modname).func("generator")
    it = Interp(repo, load_classes(repo), primary=modname)
    it.overrides["logger"] = Node("Logger", info=_PyCall(lambda *a: None), debug=_PyCall(lambda *a: None))
    it.overrides["template_keys"] = _PyCall(lambda t: set(f for _, f, _, _ in string.Formatter().parse(t) if f))
    it.overrides["np.argsort"] = _PyCall(lambda ids: sorted(range(len(ids)), key=lambda i: ids[i]))
    it.overrides["np.lexsort"] = _PyCall(lambda keys: sorted(range(len(keys[-1])), key=lambda i: tuple(k[i] for k in reversed(keys))))
    it.overrides["np.unique"] = _PyCall(lambda a, return_index=False: (sorted(set(a)), [list(a).index(v) for v in sorted(set(a))]) if return_index else sorted(set(a)))
    types = ["cell", "exterior_facet", "interior_facet", "vertex", "ridge"]
    ir = Node("FormIR", id=0, name="form_s", signature="sig", rank=0, num_coefficients=0, name_from_uflfile="M", original_coefficient_positions=[], coefficient_names=[],
              num_constants=0, constant_ranks=[], constant_shapes=[], constant_names=[], finite_element_hashes=[],
              integral_names={t: (["ic"] if t == "cell" else []) for t in types},
              integral_domains={t: ([[Node("CellType", name="triangle")]] if t == "cell" else []) for t in types},
              subdomain_ids={t: ([-1] if t == "cell" else []) for t in types})
    return it.call_f(g, [ir, {"scalar_type": "float64"}]), g


def _file_scope_names(text: str, be: str) -> set[str]:
    """identifiers defined at file scope (C) / module level (Python) by a piece of emitted text"""
    out = set()
    for line in text.splitlines():
        if not line or line[0] in " \t}/#*":
            continue
        if be == "C":
            m_ = re.match(r"(?:extern\s+)?(?:static\s+)?(?:const\s+)?[A-Za-z_][\w\s\*]*?\b([A-Za-z_]\w*)\s*(?:\[[^\]]*\]\s*)*(?:=|\(|;)", line)
            if m_ and not line.startswith("extern") and not line.startswith("typedef"):
                out.add(m_.group(1))
        else:
            m_ = re.match(r"(?:def|class)\s+([A-Za-z_]\w*)|([A-Za-z_]\w*)\s*=", line)
            if m_:
                out.add(m_.group(1) or m_.group(2))
    return out


@rule(
    "KERNEL-NAMES-DISJOINT",
    ["C13", "C19", "C06"],
    "one integral is generated once per integration-entity cell type (prism facets: triangle and quadrilateral kernels in one module): "
    "the integral generators of both backends, interpreted for two cell types of the same integral, must define disjoint sets of "
    "file-scope names (descriptor, kernel function, enabled_coefficients array, ...) - a name without the cell type is defined twice",
    min_instances=2,
)
def kernel_names_disjoint(repo, res):
    for be in ("C", "numba"):
        modname = f"ffcx.codegeneration.{be}.integral"
        mod = repo.mod(modname)
        g = mod.func("generator")
        res.functions.add(g.key)
        key = f"{g.key}:two-cell-types"
        res.ob(key)
        texts = {}
        try:
            for cell in (_Cell("triangle", 2), _Cell("quadrilateral", 3)):
                coefs = [Node("Coefficient", name="w0")]
                ir = Node("IntegralIR", enabled_coefficients=[True], part="TensorPart.full", rank=2,
                          expression=Node("CommonExpressionIR", integral_type="exterior_facet", entity_type="facet", name="integral_ds", needs_facet_permutations=False,
                                          coordinate_element_hash=7, coefficient_numbering={coefs[0]: 0}, coefficient_offsets={coefs[0]: 0}, original_constant_offsets={},
                                          tensor_shape=[3, 3], integrand={}, unique_tables={}, unique_table_types={}, number_coordinate_dofs=6))
                it = _interp(repo, modname, "float64")
                out = it.call_f(g, [ir, cell, {"scalar_type": "float64"}])
                texts[cell.name] = out[-1]
        except Raised as e:
            res.fail(key, f"{be} integral generator raises ({e.what})", mod.line(g.node))
            continue
        a, b = (_file_scope_names(t, be) for t in texts.values())
        if not a or not b:
            raise AnalysisError(f"{be} integral generator: no file-scope definitions recognised in the emitted text")
        both = sorted(a & b)
        if both:
            res.fail(key, f"the {be} kernels of one integral for the facet types triangle and quadrilateral both define {both}: the module defines the name twice "
                     "(redefinition error in C, the later definition silently wins in Python)", mod.line(g.node), props=("C13", "C19", "C06") if be == "C" else ("C13", "C18"))


class _CT(int, PyNative):
    """basix.CellType: an IntEnum - hashes like its integer value, so a set of cell types iterates in a seed-independent order."""

    def __new__(cls, value, name):
        o = int.__new__(cls, value)
        o.name = name
        return o

    def __repr__(self):
        return f"CellType.{self.name}"

    __str__ = __repr__


@rule(
    "GEN-CODE-ORDER",
    ["C12", "C06"],
    "generate_code interpreted on a sample DataIR whose integrals have several cell types (prism facets): the (cell type, rule) keys of "
    "an integrand map are inserted in the order of ufl.Cell.facet_types, a tuple(set(..)) whose order changes with the hash seed - the "
    "sequence of kernels emitted must be the same for every insertion order of that map (permutation invariance), one kernel per "
    "(integral, cell type), integrals in IR order, followed by the forms and expressions in IR order",
    min_instances=3,
)
def gen_code_order(repo, res):
    import itertools

    modname = "ffcx.codegeneration.codegeneration"
    m = repo.mod(modname)
    g = m.func("generate_code")
    res.functions.add(g.key)
    loc = m.line(g.node)
    tri, quad, itv = _CT(3, "triangle"), _CT(4, "quadrilateral"), _CT(1, "interval")
    r1, r2 = Node("QuadratureRule", name="r1"), Node("QuadratureRule", name="r2")

    def run(orders):
        it = Interp(repo, load_classes(repo), primary=modname)
        it.overrides["logger"] = Node("Logger", info=_PyCall(lambda *a: None), debug=_PyCall(lambda *a: None))
        gens = Node("Module", integral=Node("M", generator=_PyCall(lambda ir, domain, options: ("integral", ir.f["expression"].f["name"], repr(domain)))),
                    form=Node("M", generator=_PyCall(lambda ir, options: ("form", ir.f["name"]))),
                    expression=Node("M", generator=_PyCall(lambda ir, options: ("expression", ir.f["name"]))),
                    file=Node("M", generator=_PyCall(lambda options: (("pre",), ("post",))), suffixes=(".h", ".c")))
        it.overrides["import_module"] = _PyCall(lambda name: gens)
        it.overrides["get_language"] = _PyCall(lambda options: "ffcx.codegeneration.C")
        it.overrides["CodeBlocks"] = _PyCall(lambda **k: Node("CodeBlocks", **k))
        integrals = []
        for name, keys in orders:
            integrals.append(Node("IntegralIR", expression=Node("CommonExpressionIR", name=name, integrand={k: {"marker": name} for k in keys})))
        ir = Node("DataIR", integrals=integrals, forms=[Node("FormIR", name="form_a"), Node("FormIR", name="form_b")], expressions=[Node("ExpressionIR", name="expr_a")])
        out = it.call_f(g, [ir, {"scalar_type": "float64"}])
        cb = out[0] if isinstance(out, tuple) else out
        if not isinstance(cb, Node) or "integrals" not in cb.f:
            raise AnalysisError("generate_code did not return code blocks")
        return cb.f

    base = [("facet_integral", [(tri, r1), (quad, r1), (quad, r2)]), ("cell_integral", [(itv, r1)]), ("other_facet_integral", [(quad, r2), (tri, r2)])]
    key = f"{g.key}:permutation-invariance"
    res.ob(key)
    outs = []
    try:
        for perm0 in itertools.permutations(base[0][1]):
            for perm2 in itertools.permutations(base[2][1]):
                outs.append(((list(perm0), list(perm2)), run([(base[0][0], list(perm0)), base[1], (base[2][0], list(perm2))])))
    except Raised as e:
        res.fail(key, f"generate_code raises ({e.what}) on the sample IR", loc)
        return
    ref = outs[0][1]["integrals"]
    for (p0, p2), o in outs[1:]:
        if o["integrals"] != ref:
            res.fail(key, f"the kernels are emitted as {[x[1:] for x in ref]} when the integrand map of the prism facet integral was filled in the order "
                     f"{[repr(k[0]) for k in outs[0][0][0]]}, but as {[x[1:] for x in o['integrals']]} when it was filled as {[repr(k[0]) for k in p0]}: that order is "
                     "ufl.Cell.facet_types, a tuple(set(...)) that changes with PYTHONHASHSEED, so the generated text differs between processes", loc)
            break
    key = f"{g.key}:one-kernel-per-integral-and-cell-type"
    res.ob(key)
    got = [x[1:] for x in ref]
    want_sets = [("facet_integral", {repr(tri), repr(quad)}), ("cell_integral", {repr(itv)}), ("other_facet_integral", {repr(tri), repr(quad)})]
    pos = 0
    ok = True
    for name, doms in want_sets:
        chunk = got[pos:pos + len(doms)]
        if {c[0] for c in chunk} != {name} or {c[1] for c in chunk} != doms or len(chunk) != len(doms):
            ok = False
        pos += len(doms)
    if not ok or pos != len(got):
        res.fail(key, f"kernels emitted: {got}; expected one per (integral, cell type) - never one per (cell type, rule) - with the integrals in IR order", loc)
    key = f"{g.key}:forms-and-expressions-in-ir-order"
    res.ob(key)
    o = outs[0][1]
    if o.get("forms") != [("form", "form_a"), ("form", "form_b")] or o.get("expressions") != [("expression", "expr_a")] or o.get("file_pre") != [("pre",)] or o.get("file_post") != [("post",)]:
        res.fail(key, f"forms / expressions / file blocks are {o.get('forms')}, {o.get('expressions')}, {o.get('file_pre')}, {o.get('file_post')}", loc)
