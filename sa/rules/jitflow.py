"""The JIT entry points interpreted on a virtual file system (C13, C14, C15).

JIT-FLOW  ffcx.codegeneration.jit.compile_forms / compile_expressions / get_cached_module / _load_objects are interpreted from
          source with a virtual cache directory (a dict of file names), recording stubs for the code generator / C compiler
          (_compile_objects), importlib (a loaded module's `lib` returns a marker per requested name) and the naming functions.
          Scenarios and what is compared:
            fresh cache      _compile_objects is called once with: declarations = header (for the scalar type of the *merged*
                             options) + integral + form (+ expression) declarations + one `extern` line per object name in
                             order; the caller's objects and names; the merged options; the cache directory and the cffi
                             arguments given by the caller.  The objects returned are lib.<name> for the names in the order
                             of the objects requested, together with the module and (declarations, implementation).
            ready module     when `<module>.c` and `<module>.c.cached` exist, nothing is built and the loaded objects are
                             returned in request order with (None, None).
            no cache dir     a private temporary directory is used and the module is built.
            pending build    `<module>.c` exists without the ready marker: the request waits (sleeps) and then raises.
            failing build    the exception of _compile_objects propagates and `<module>.c` has been renamed to `.c.failed`.
          The module name is the kind prefix + compute_signature(objects, option signature + compilation signature), and every
          object name derives from that module name and the object's position.
"""

from __future__ import annotations

from ..absint import Interp, Node, PyNative, Raised, _PyCall
from ..lnodes_model import load_classes
from ..model import AnalysisError
from ..npmodel import install
from ..registry import rule

JIT = "ffcx.codegeneration.jit"


class _P(PyNative):
    def __init__(self, *parts):
        self.p = "/".join(str(x).rstrip("/") for x in parts if str(x) != "").replace("//", "/")

    def joinpath(self, *o):
        return _P(self.p, *o)

    def __truediv__(self, o):
        return _P(self.p, o)

    def with_suffix(self, suf):
        base, _, last = self.p.rpartition("/")
        stem = last.rsplit(".", 1)[0] if "." in last else last
        return _P(base, stem + suf) if base else _P(stem + suf)

    @property
    def name(self):
        return self.p.rpartition("/")[2]

    def __str__(self):
        return self.p

    def __fspath__(self):
        return self.p

    def __eq__(self, o):
        return str(o) == self.p

    def __hash__(self):
        return hash(self.p)

    def __repr__(self):
        return f"Path({self.p!r})"


def _world(repo, fs, log, fail_build=False, lib_has=None):
    it = install(Interp(repo, load_classes(repo), primary=JIT))

    def mkdir(self_path):
        return None

    class P2(_P):
        def mkdir(self, **k):
            fs.setdefault("__dirs__", set()).add(self.p)

        def exists(self):
            return self.p in fs

        def touch(self, **k):
            fs[self.p] = ""

    def path(*a):
        if len(a) == 1 and isinstance(a[0], _P):
            return P2(a[0].p)
        return P2(*a)

    # make derived paths P2 as well
    _P.joinpath = lambda self, *o: P2(self.p, *o)
    _P.__truediv__ = lambda self, o: P2(self.p, o)
    _wsuf = _P.with_suffix

    def with_suffix(self, suf):
        r = _wsuf(self, suf)
        return P2(r.p)
    P2.with_suffix = with_suffix
    it.overrides["Path"] = _PyCall(path)

    class _File(PyNative):
        def __init__(self, name, mode):
            self.name, self.mode = str(name), mode
            if "x" in mode:
                if self.name in fs:
                    raise Raised("FileExistsError")
                fs[self.name] = ""
                log.append(("create-x", self.name))
            elif "w" in mode:
                fs[self.name] = ""
                log.append(("create-w", self.name))
            elif self.name not in fs:
                raise Raised("FileNotFoundError")

        def __enter__(self):
            return self

        def __exit__(self, *a):
            return False

        def write(self, s_):
            fs[self.name] = fs.get(self.name, "") + str(s_)

        def read(self):
            return str(fs.get(self.name, ""))

        def readline(self):
            text = str(fs.get(self.name, ""))
            return text.split("\n")[0] + ("\n" if "\n" in text else "")

        def readlines(self):
            return [ln + "\n" for ln in str(fs.get(self.name, "")).split("\n") if ln]

        def close(self):
            return None
    it.overrides["open"] = _PyCall(lambda n, mode="r", *a, **k: _File(n, mode))
    it.overrides["os.path.exists"] = _PyCall(lambda p_: str(p_) in fs)

    def replace(a, b):
        if str(a) not in fs:
            raise Raised("FileNotFoundError")
        fs[str(b)] = fs.pop(str(a))
        log.append(("rename", str(a), str(b)))
    it.overrides["os.replace"] = _PyCall(replace)
    it.overrides["os.rename"] = _PyCall(replace)
    it.overrides["time.sleep"] = _PyCall(lambda s_: log.append(("sleep", s_)))
    it.overrides["os.getpid"] = _PyCall(lambda: 4242)
    it.overrides["logger"] = Node("Logger", info=_PyCall(lambda *a: None), debug=_PyCall(lambda *a: None), warning=_PyCall(lambda *a: None), error=_PyCall(lambda *a: None))
    it.overrides["tempfile.mkdtemp"] = _PyCall(lambda *a, **k: log.append(("mkdtemp",)) or "/tmp/private")
    # importlib: a finder over the cache directory finds `<dir>/<module>.so` when the ready marker logic let it be consulted
    lib = Node("Lib")

    class _Lib(PyNative):
        def __getattr__(self, name):
            if name.startswith("__"):
                raise AttributeError(name)
            if lib_has is not None and name not in lib_has:
                raise AttributeError(name)
            return f"lib.{name}"

    class _Loader(PyNative):
        def exec_module(self, m_):
            log.append(("exec_module", m_.name))

    class _Module(PyNative):
        def __init__(self, name):
            self.name = name
            self.lib = _Lib()
            self.ffi = "ffi"

        def __repr__(self):
            return f"<module {self.name}>"

    class _Spec(PyNative):
        def __init__(self, name):
            self.name = name
            self.loader = _Loader()

    class _Finder(PyNative):
        def __init__(self, d, *a):
            self.d = str(d)

        def invalidate_caches(self):
            return None

        def find_spec(self, name):
            log.append(("find_spec", self.d, name))
            return _Spec(name) if f"{self.d}/{name}.so" in fs else None
    it.overrides["importlib.machinery.FileFinder"] = _PyCall(lambda d, *a: _Finder(d))
    it.overrides["importlib.machinery.ExtensionFileLoader"] = "ExtensionFileLoader"
    it.overrides["importlib.machinery.EXTENSION_SUFFIXES"] = [".so"]
    it.overrides["importlib.util.module_from_spec"] = _PyCall(lambda spec: _Module(spec.name))
    it.overrides["sys.platform"] = "linux"
    it.overrides["sysconfig.get_config_var"] = _PyCall(lambda k: f"<{k}>")
    # declarations: distinct markers; the header takes the scalar type name
    it.overrides["UFC_HEADER_DECL"] = "HEADER[{}];"
    it.overrides["UFC_INTEGRAL_DECL"] = "INTEGRAL;"
    it.overrides["UFC_FORM_DECL"] = "FORM;"
    it.overrides["UFC_EXPRESSION_DECL"] = "EXPRESSION;"

    def compile_objects(decl, objs, names, module_name, options, cache_dir, extra, verbose, debug, libraries, visualise=False):
        log.append(("compile", {"decl": decl, "objects": objs, "names": list(names), "module": module_name, "options": options, "cache_dir": str(cache_dir),
                                "extra": extra, "verbose": verbose, "debug": debug, "libraries": libraries, "visualise": visualise}))
        d = str(cache_dir)
        if isinstance(fail_build, str):
            raise Raised(fail_build)  # code generation fails: nothing was written yet
        # cffi emits the generated source as <tmpdir>/<module>.c - the very file that serves as the lock - before it calls the C compiler
        fs[f"{d}/{module_name}.c"] = "/* generated by cffi */\n#include <Python.h>\n"
        if fail_build:
            raise Raised("VerificationError: CompileError: the C compiler failed")
        fs[f"{d}/{module_name}.so"] = "binary"
        fs[f"{d}/{module_name}.c.cached"] = "ready"
        return "IMPL"
    it.overrides["_compile_objects"] = _PyCall(compile_objects)
    merged = {"scalar_type": "complex64", "part": "full", "table_rtol": 1e-6, "verbosity": 30}

    def get_options(opts=None):
        log.append(("get_options", opts))
        out = dict(merged)
        out.update(opts or {})
        return out
    it.overrides["ffcx.options.get_options"] = _PyCall(get_options)

    def compute_signature(objs, tag):
        log.append(("signature", list(objs), tag))
        return f"SIG<{len(objs)}|{tag}>"
    it.overrides["ffcx.naming.compute_signature"] = _PyCall(compute_signature)
    it.overrides["ffcx.naming.form_name"] = _PyCall(lambda form, i, prefix: f"form[{form}|{i}|{prefix}]")
    it.overrides["ffcx.naming.expression_name"] = _PyCall(lambda e, prefix, i=None: f"expression[{e[0] if isinstance(e, tuple) else e}|{i}|{prefix}]")
    return it


@rule(
    "JIT-FLOW",
    ["C13", "C14", "C15"],
    "compile_forms / compile_expressions / get_cached_module / _load_objects interpreted on a virtual cache directory: a fresh request "
    "builds once with declarations, objects, names, merged options and cffi arguments of this request and returns lib.<name> in request "
    "order; a ready module is loaded without building; a pending build makes the request wait and then raise; a failing build propagates "
    "and leaves `<module>.c.failed`; module and object names derive from compute_signature(objects, options + compilation signature)",
    min_instances=10,
)
def jit_flow(repo, res):
    m = repo.mod(JIT)
    entries = {"forms": m.func("compile_forms"), "expressions": m.func("compile_expressions")}
    for nm in ("get_cached_module", "_load_objects", "_compute_option_signature", "_compilation_signature"):
        res.functions.add(m.func(nm).key)
    for kind, f in entries.items():
        res.functions.add(f.key)
        loc = m.line(f.node)
        objs = ["objB", "objA", "objC"] if kind == "forms" else [("exprB", "ptsB"), ("exprA", "ptsA")]
        user_opts = {"scalar_type": "float32"}
        prefix = "libffcx_forms_" if kind == "forms" else "libffcx_expressions_"
        extra, libs = ["-O1", "-g0"], ["m", "foo"]

        def call(fs, log, cache_dir="/cache", fail=False, timeout=3, lib_has=None):
            it = _world(repo, fs, log, fail_build=fail, lib_has=lib_has)
            kw = {"options": dict(user_opts), "cache_dir": cache_dir, "timeout": timeout, "cffi_extra_compile_args": list(extra), "cffi_verbose": True,
                  "cffi_debug": True, "cffi_libraries": list(libs)}
            return it.call_f(f, [list(objs)], kw)

        def names_of(log):
            sig = [e for e in log if e[0] == "signature"]
            return sig

        # ---- fresh cache
        key = f"{f.key}:fresh-cache"
        res.ob(key)
        fs, log = {}, []
        try:
            out = call(fs, log)
        except Raised as e:
            res.fail(key, f"compile_{kind} raises ({e.what}) on an empty cache directory", loc)
            continue
        comp = [e[1] for e in log if e[0] == "compile"]
        sig = names_of(log)
        msgs = []
        if len(sig) != 1 or sig[0][1] != list(objs):
            msgs.append(f"compute_signature is called {len(sig)} times / not with the requested objects")
        else:
            tag = sig[0][2]
            for piece, what in (("'scalar_type', 'float32'", "the merged options (the caller's scalar_type)"), ("'table_rtol'", "every merged option (defaults included)"),
                                ("-O1", "the extra compile arguments"), ("True", "the cffi debug flag"), ("foo", "the libraries"), ("<SOABI>", "the interpreter ABI"),
                                ("<CFLAGS>", "CFLAGS")):
                if piece not in tag:
                    msgs.append(f"the signature tag `{tag[:90]}...` does not contain {what}")
        module = prefix + (f"SIG<{len(objs)}|{sig[0][2]}>" if sig else "?")
        if len(comp) != 1:
            msgs.append(f"the module is built {len(comp)} times")
        else:
            c = comp[0]
            want_names = [(f"form[{o}|{i}|{module}]" if kind == "forms" else f"expression[{o[0]}|{i}|{module}]") for i, o in enumerate(objs)]
            if c["module"] != module:
                msgs.append(f"module name `{c['module'][:60]}` is not {prefix} + signature")
            if c["names"] != want_names:
                msgs.append(f"object names are {c['names']}, expected one per object in request order, derived from the module name and the position: {want_names}")
            if c["objects"] != list(objs):
                msgs.append("the objects handed to the generator are not the requested ones in order")
            if not isinstance(c["options"], dict) or c["options"].get("scalar_type") != "float32" or "table_rtol" not in c["options"]:
                msgs.append(f"the generator receives options {c['options']}, not the merged options (defaults overridden by the caller's)")
            if (c["cache_dir"], c["extra"], c["verbose"], c["debug"], c["libraries"]) != ("/cache", extra, True, True, libs):
                msgs.append(f"cache dir / cffi arguments handed to the build are {(c['cache_dir'], c['extra'], c['verbose'], c['debug'], c['libraries'])}, the caller gave "
                            f"{('/cache', extra, True, True, libs)}")
            decl = str(c["decl"])
            head = "HEADER[float32];INTEGRAL;FORM;" + ("EXPRESSION;" if kind == "expressions" else "")
            ext = "".join(f"extern ufcx_{'form' if kind == 'forms' else 'expression'} {n};\n" for n in want_names)
            if decl != head + ext:
                msgs.append(f"declarations are `{decl[:120]}...`, expected the header for float32, the integral/form{'/expression' if kind == 'expressions' else ''} "
                            "declarations and one extern line per object in order")
            want_out = [f"lib.{n}" for n in want_names]
            if not isinstance(out, tuple) or len(out) != 3 or list(out[0]) != want_out:
                msgs.append(f"returned objects are {out[0] if isinstance(out, tuple) else out}, expected lib.<name> for the names in request order")
            elif not (isinstance(out[2], tuple) and out[2] == (decl, "IMPL")):
                msgs.append(f"the third result is {out[2]!r}, expected (declarations, implementation)")
            elif getattr(out[1], "name", None) != module:
                msgs.append(f"the module returned is {out[1]!r}, not the one built")
        if ("create-x", f"/cache/{module}.c") not in log:
            msgs.append("the lock file <module>.c is not created exclusively before the build")
        for msg in msgs:
            res.fail(key, f"compile_{kind} on a fresh cache: {msg}", loc)
        if msgs:
            continue
        want_names = comp[0]["names"]
        # ---- ready module: second request on the same virtual directory
        key = f"{f.key}:ready-module"
        res.ob(key)
        log2 = []
        try:
            out2 = call(fs, log2)
            if any(e[0] == "compile" for e in log2):
                res.fail(key, f"compile_{kind} rebuilds a module whose ready marker exists", loc)
            elif not isinstance(out2, tuple) or list(out2[0]) != [f"lib.{n}" for n in want_names] or out2[2] != (None, None):
                res.fail(key, f"with a ready module the request returns {out2!r}, expected (objects in request order, module, (None, None))", loc)
        except Raised as e:
            res.fail(key, f"compile_{kind} raises ({e.what}) although the module is ready", loc)
        # ---- no cache directory
        key = f"{f.key}:no-cache-dir"
        res.ob(key)
        fs3, log3 = {}, []
        try:
            out3 = call(fs3, log3, cache_dir=None)
            comp3 = [e[1] for e in log3 if e[0] == "compile"]
            if ("mkdtemp",) not in log3 or len(comp3) != 1 or comp3[0]["cache_dir"] != "/tmp/private":
                res.fail(key, f"without a cache directory the module is not built in a private temporary directory (build calls: {[c_['cache_dir'] for c_ in comp3]})", loc)
            elif list(out3[0]) != [f"lib.{n}" for n in comp3[0]["names"]]:
                res.fail(key, "without a cache directory the objects returned are not those of the module just built", loc)
        except Raised as e:
            res.fail(key, f"compile_{kind} raises ({e.what}) without a cache directory", loc)
        # ---- pending build (lock without marker)
        key = f"{f.key}:pending-build"
        res.ob(key)
        fs4, log4 = {f"/cache/{module}.c": ""}, []
        try:
            out4 = call(fs4, log4, timeout=3)
            res.fail(key, f"a request that finds <module>.c without the ready marker returns {out4!r} instead of waiting and raising", loc)
        except Raised:
            if any(e[0] == "compile" for e in log4):
                res.fail(key, "a request that finds <module>.c without the ready marker starts a second build", loc)
            elif sum(e[1] for e in log4 if e[0] == "sleep") < 3 - 1e-9:
                res.fail(key, f"the request gives up after sleeping {sum(e[1] for e in log4 if e[0] == 'sleep')} s although timeout = 3", loc)
            if any(e[0] in ("exec_module",) for e in log4):
                res.fail(key, "a module is loaded although its ready marker does not exist", loc)
            if f"/cache/{module}.c" not in fs4 or any(e[0] == "rename" for e in log4):
                res.fail(key, f"a request that gives up waiting removes / renames the lock file of the process that is still building "
                         f"(cache afterwards: {sorted(k for k in fs4 if not k.startswith('__'))}): the next request builds in parallel with the first", loc)
        # ---- the other process finishes while we wait: marker appears after the first sleep
        key = f"{f.key}:build-finishes-while-waiting"
        res.ob(key)
        fs5, log5 = {f"/cache/{module}.c": ""}, []

        class _Log(list):
            def append(self, e):
                super().append(e)
                if e[0] == "sleep" and f"/cache/{module}.c.cached" not in fs5:
                    fs5[f"/cache/{module}.so"] = "binary"
                    fs5[f"/cache/{module}.c.cached"] = "ready"
        log5 = _Log()
        try:
            out5 = call(fs5, log5, timeout=5)
            if any(e[0] == "compile" for e in log5) or list(out5[0]) != [f"lib.{n}" for n in want_names] or out5[2] != (None, None):
                res.fail(key, f"a request that waits for another process's build returns {out5!r} / builds itself", loc)
        except Raised as e:
            res.fail(key, f"a request raises ({e.what}) although the other process finished its build within the timeout", loc)
        # ---- same, with the `.c.failed` file of an earlier, unrelated failure still in the directory
        key = f"{f.key}:stale-failed-marker"
        res.ob(key)
        fs8 = {f"/cache/{module}.c": "", f"/cache/{module}.c.failed": "old failure"}

        class _Log8(list):
            def append(self, e):
                super().append(e)
                if e[0] == "sleep" and f"/cache/{module}.c.cached" not in fs8:
                    fs8[f"/cache/{module}.so"] = "binary"
                    fs8[f"/cache/{module}.c.cached"] = "ready"
        log8 = _Log8()
        try:
            out8 = call(fs8, log8, timeout=5)
            if any(e[0] == "compile" for e in log8) or list(out8[0]) != [f"lib.{n}" for n in want_names]:
                res.fail(key, f"with a stale <module>.c.failed in the cache a waiting request returns {out8!r} / builds itself", loc)
        except Raised as e:
            res.fail(key, f"a waiting request raises ({e.what}) because a <module>.c.failed of an earlier failure is still in the cache, although the rebuild in progress "
                     "completes within the timeout: nothing ever removes that file, so one historical failure breaks every later concurrent request", loc)
        # ---- failing build
        key = f"{f.key}:failing-build"
        res.ob(key)
        fs6, log6 = {}, []
        try:
            out6 = call(fs6, log6, fail=True)
            res.fail(key, f"a failing build returns {out6!r} instead of raising", loc)
        except Raised:
            if f"/cache/{module}.c" in fs6 or f"/cache/{module}.c.failed" not in fs6:
                res.fail(key, f"after a failing build the cache holds {sorted(k for k in fs6 if not k.startswith('__'))}: <module>.c must be renamed to <module>.c.failed so that "
                         "the next request builds afresh instead of waiting", loc)
            if f"/cache/{module}.c.cached" in fs6:
                res.fail(key, "a failing build leaves a ready marker", loc)
        # ---- a build that ends in an exception deriving from BaseException: UFL's ComplexComparisonError (a comparison of complex values found
        # during code generation), an interrupt of the builder: the lock must be released all the same
        # (an interrupt of the builder is the "killed" case of C15: later requests may also raise within the timeout; not demanded here)
        for what in ("ComplexComparisonError: Ordering undefined for complex values.",):
            key = f"{f.key}:failing-build:{what.split(':')[0]}"
            res.ob(key)
            fs8, log8 = {}, []
            try:
                out8 = call(fs8, log8, fail=what)
                res.fail(key, f"a build ending in {what.split(':')[0]} returns {out8!r} instead of raising", loc)
            except Raised as e:
                if not e.what.startswith(what.split(":")[0]):
                    res.fail(key, f"a build ending in {what.split(':')[0]} raises {e.what} instead", loc)
                elif f"/cache/{module}.c" in fs8 or f"/cache/{module}.c.failed" not in fs8:
                    res.fail(key, f"after a build that ended in {what.split(':')[0]} (an exception deriving from BaseException, not from Exception) the cache holds "
                             f"{sorted(k for k in fs8 if not k.startswith('__'))}: the lock <module>.c is not renamed to <module>.c.failed, so the next request for the same "
                             "objects waits for the timeout instead of building afresh (and reporting the same error)", loc, props=("C15",))
        # ---- a module that lacks a requested object
        key = f"{f.key}:missing-object"
        res.ob(key)
        fs7, log7 = dict(fs), []
        try:
            out7 = call(fs7, log7, lib_has=set(want_names[:-1]))
            res.fail(key, f"a module that does not define {want_names[-1]} yields {out7[0]!r} instead of an error", loc)
        except Raised:
            pass


@rule(
    "JIT-DIAGONAL",
    ["C10", "C12"],
    "compile_forms interpreted with part=\"diagonal\" on stand-in forms: a bilinear form on a mixed space is replaced by the sum of exactly its "
    "diagonal blocks (j, j) - absent blocks skipped, an all-absent diagonal rejected - before the signature is computed and the generator "
    "is called; a bilinear form without sub-elements, a linear form and a functional are compiled as given; with part=\"full\" nothing is replaced",
    min_instances=6,
)
def jit_diagonal(repo, res):
    m = repo.mod(JIT)
    f = m.func("compile_forms")
    res.functions.add(f.key)
    loc = m.line(f.node)

    class Arg(PyNative):
        def __init__(self, n):
            self.n = n

        def number(self):
            return self.n

    class Form(PyNative):
        def __init__(self, name, numbers, blocks=None):
            self.name, self.numbers, self.blocks = name, numbers, blocks

        def arguments(self):
            return [Arg(n) for n in self.numbers]

        def __repr__(self):
            return self.name

        def __eq__(self, o):
            return self is o

        def __hash__(self):
            return id(self)

    class FormSum(PyNative):
        """ZeroBaseForm + block + block ...: remembers its summands in order"""

        def __init__(self, parts=()):
            self.parts = list(parts)

        def __add__(self, o):
            return FormSum(self.parts + [o])

        def __iadd__(self, o):
            return FormSum(self.parts + [o])

        def __eq__(self, o):
            if isinstance(o, int) and o == 0:
                return not self.parts
            return isinstance(o, FormSum) and o.parts == self.parts

        def __hash__(self):
            return 0

        def arguments(self):
            return [Arg(0), Arg(1)]

        def __repr__(self):
            return "Sum" + repr(self.parts)

    def blk(name):
        return Form(name, [0, 1])

    b00, b01, b10, b11, b22 = blk("a00"), blk("a01"), blk("a10"), blk("a11"), blk("a22")
    mixed = Form("mixed", [1, 0, 1, 0], [[b00, b01], [b10, b11]])
    holey = Form("holey", [0, 1], [[b00, None, b01], [None, None, b10], [b10, b01, b22]])
    empty = Form("emptydiag", [0, 1], [[None, b01], [b10, None]])
    plain = Form("plain", [0, 1], "self")
    linear = Form("linear", [0], [[b00]])
    functional = Form("functional", [], None)

    def run(forms, part):
        fs, log = {}, []
        it = _world(repo, fs, log)
        it.overrides["ffcx.options.get_options"] = _PyCall(lambda opts=None: {"scalar_type": "float64", "part": part, "table_rtol": 1e-6, "verbosity": 30})
        it.overrides["ufl.form.Form"] = Form
        it.overrides["ufl.Form"] = Form
        it.overrides["ufl.ZeroBaseForm"] = _PyCall(lambda args=(): FormSum())

        def extract_blocks(form, *a, replace_argument=True, **k):
            log.append(("extract_blocks", form, replace_argument))
            if form.blocks == "self":
                return form
            if form.blocks is None:
                raise Raised("ValueError: extract_blocks of a form without arguments")
            return [list(r) for r in form.blocks]
        it.overrides["ufl.extract_blocks"] = _PyCall(extract_blocks)
        lst = list(forms)
        it.call_f(f, [lst], {"options": {"part": part}, "cache_dir": "/cache"})
        sig = [e for e in log if e[0] == "signature"]
        comp = [e[1] for e in log if e[0] == "compile"]
        return lst, (sig[0][1] if sig else None), (comp[0]["objects"] if comp else None), log

    cases = [
        ("mixed bilinear form, diagonal", [mixed], "diagonal", [FormSum([b00, b11])]),
        ("bilinear form with absent diagonal block, diagonal", [holey], "diagonal", [FormSum([b00, b22])]),
        ("bilinear form without sub-elements, linear form and functional, diagonal", [plain, linear, functional], "diagonal", [plain, linear, functional]),
        ("second of two forms is mixed, diagonal", [linear, mixed], "diagonal", [linear, FormSum([b00, b11])]),
        ("mixed bilinear form, full", [mixed], "full", [mixed]),
    ]
    res.ob(f"{f.key}:caller's-list-unchanged")
    for label, forms, part, want in cases:
        key = f"{f.key}:{label}"
        res.ob(key)
        try:
            lst, signed, built, log = run(forms, part)
        except Raised as e:
            res.fail(key, f"compile_forms raises ({e.what}) for {label}", loc)
            continue
        for what, got in (("the signature is computed over", signed), ("the generator receives", built)):
            if got is None or list(got) != want:
                res.fail(key, f"{label}: {what} {got}, expected {want}: part=\"diagonal\" replaces a bilinear form on a mixed space by the sum of its diagonal blocks (j, j) and "
                         "leaves every other form - and every form under part=\"full\" - as given", loc)
                break
        if len(lst) != len(forms) or any(a is not b for a, b in zip(lst, forms)):
            res.fail(f"{f.key}:caller's-list-unchanged", f"{label}: after the call the caller's list holds {lst} instead of {list(forms)}: the replacement is written into the "
                     "argument, so the next compilation of the same list - e.g. with part=\"full\" - compiles the diagonal part and gives a different kernel "
                     "for the same request (state leaking from one compilation into the next)", loc, props=("C12",))
        if part == "diagonal":
            bad = [e for e in log if e[0] == "extract_blocks" and e[2] is not False]
            if bad:
                res.fail(key, f"{label}: extract_blocks is called with replace_argument={bad[0][2]}: the blocks would be forms over the sub-spaces (other element "
                         "dimensions and dof numbering) instead of restrictions of the original arguments", loc)
    key = f"{f.key}:all-diagonal-blocks-absent-rejected"
    res.ob(key)
    try:
        lst, signed, built, log = run([empty], "diagonal")
        res.fail(key, f"a bilinear form whose diagonal blocks are all absent is compiled as {built}: its diagonal is zero, which must be reported, not generated "
                 "as an empty or as the full form", loc)
    except Raised:
        pass
