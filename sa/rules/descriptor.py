"""C06 (and the descriptor parts of C04, C05, C09, C18, C20): descriptors agree with ufcx.h and the IR.

IDX-SPACE        offsets are kernel counts accumulated over the current type's domain lists
PERM-CONSISTENT  one argsort permutation of the ids is applied to ids, names and domains
TYPE-ORDER       integral types are enumerated in the order of the ufcx_integral_type enum everywhere
EVERYWHERE-ID    "otherwise" and only it maps to -1; ids below -1 are rejected
DESC-FIELDS      struct fields of ufcx.h <-> designated initialisers of the C templates <-> attributes
                 of the numba template classes; slot values come from the like-named IR field in both
                 backends
FORM-IR-SOURCES  the FormIR fields are computed from the documented form-data sources
KERNEL-SIG       kernel signature of the C templates == the four typedefs of ufcx.h; JIT cdef regexes
                 still extract every declaration
"""

from __future__ import annotations

import ast
import re
import string

from ..cheader import parse_header
from ..flow import Slicer
from ..model import AnalysisError, call_name, calls_in, const_value, dotted, walk_no_nested
from ..registry import rule

COMMON = "ffcx.codegeneration.common"
REP = "ffcx.ir.representation"


def _names(e):
    return {n.id for n in ast.walk(e) if isinstance(n, ast.Name)}


def _perm_producer(st):
    """(index variable, ids expression, problem or None) if `st` computes the sorting index list."""
    if not isinstance(st, ast.Assign) or not isinstance(st.value, ast.Call):
        return None, None, None
    nm = call_name(st.value) or ""
    tgt = st.targets[0]
    if nm.endswith("argsort") and isinstance(tgt, ast.Name):
        kind = kwarg_(st.value, "kind")
        return tgt.id, st.value.args[0], None
    if nm.endswith("lexsort") and isinstance(tgt, ast.Name):
        return tgt.id, st.value.args[0], None
    if nm == "sorted" and isinstance(tgt, ast.Name) and st.value.args and "range(len(" in ast.unparse(st.value.args[0]):
        return tgt.id, st.value.args[0], None
    if nm.endswith("unique") and isinstance(tgt, ast.Tuple) and any(k.arg == "return_index" for k in st.value.keywords):
        names = [e.id for e in tgt.elts if isinstance(e, ast.Name)]
        return (names[1] if len(names) > 1 else names[0]), st.value.args[0], "np.unique(..., return_index=True) (first occurrence of each distinct id only)"
    return None, None, None


def kwarg_(call, name):
    for k in call.keywords:
        if k.arg == name:
            return k.value
    return None


@rule(
    "IDX-SPACE",
    ["C06"],
    "common.integral_data: ids/names/domains are indexed by integral group (I), form_integrals and the "
    "offsets by kernel (K = one per group and cell type). The offset increment of a type must be the "
    "sum of len(domain list) over exactly this type's groups; an I-indexed list must not be sliced by a "
    "K-valued expression",
    min_instances=4,
)
def idx_space(repo, res):
    m = repo.mod(COMMON)
    f = m.func("integral_data")
    res.functions.add(f.key)
    loops = [n for n in walk_no_nested(f.node) if isinstance(n, ast.For)]
    if len(loops) != 1:
        raise AnalysisError("integral_data: expected one loop over integral types")
    lp = loops[0]
    tvar = lp.target.id if isinstance(lp.target, ast.Name) else None
    if tvar is None:
        raise AnalysisError("integral_data: loop target is not a name")
    # I-lists: lists extended in the loop by comprehensions over the argsort permutation
    ilists = {}
    perm_var = None
    for st in lp.body:
        pv, _src, _why = _perm_producer(st)
        if pv:
            perm_var = pv
    for st in lp.body:
        if isinstance(st, ast.AugAssign) and isinstance(st.op, ast.Add) and isinstance(st.target, ast.Name) and isinstance(st.value, ast.ListComp):
            ilists[st.target.id] = st
    if perm_var is None or len(ilists) < 3:
        raise AnalysisError("integral_data: argsort permutation / the three per-group lists not found")
    # which I-list holds the domain lists
    dom_list = [k for k, st in ilists.items() if "integral_domains" in ast.unparse(st.value)]
    if len(dom_list) != 1:
        raise AnalysisError("integral_data: list built from ir.integral_domains not found")
    dom = dom_list[0]
    # offsets.append(...)
    apps = [c for st in lp.body for c in calls_in(st) if isinstance(c.func, ast.Attribute) and c.func.attr == "append"]
    key = f"{f.key}:offset-increment"
    res.ob(key)
    if len(apps) != 1:
        res.fail(key, "expected exactly one offsets.append per integral type", m.line(lp))
        return
    app = apps[0]
    off = dotted(app.func.value)
    expr = app.args[0]
    # must be offsets[-1] + <K-count of this type>
    ok_shape = isinstance(expr, ast.BinOp) and isinstance(expr.op, ast.Add)
    prev_ok = ok_shape and any(ast.unparse(x).replace(" ", "") == f"{off}[-1]" for x in (expr.left, expr.right))
    if not prev_ok:
        res.fail(key, f"offset of the next type is `{ast.unparse(expr)}`, not the previous offset plus this type's kernel count", m.line(app))
        return
    inc = expr.right if ast.unparse(expr.left).replace(" ", "") == f"{off}[-1]" else expr.left
    # K-count: sum(len(d) for d in X)
    kcount = isinstance(inc, ast.Call) and call_name(inc) == "sum" and inc.args and isinstance(inc.args[0], (ast.GeneratorExp, ast.ListComp))
    src = None
    if kcount:
        g = inc.args[0]
        elt_ok = isinstance(g.elt, ast.Call) and call_name(g.elt) == "len"
        src = g.generators[0].iter
        if not elt_ok:
            kcount = False
    if not kcount:
        res.fail(key, f"offset increment `{ast.unparse(inc)}` does not count kernels (sum of len(domains) per group): "
                 "form_integrals holds one entry per (group, cell type)", m.line(app))
        return
    # the domain lists summed over must be exactly those of the current type
    key2 = f"{f.key}:increment-range"
    res.ob(key2)
    st = ast.unparse(src)
    ok = False
    why = ""
    if isinstance(src, ast.Subscript) and isinstance(src.slice, ast.Slice) and isinstance(src.value, ast.Name) and src.value.id == dom:
        lo = src.slice.lower
        # start must be an I-valued count captured before this iteration's `+=`: len(<I-list>) evaluated earlier
        lo_txt = ast.unparse(lo) if lo is not None else ""
        sl = Slicer(f.node)
        lo_full = sl.text(lo) if lo is not None else ""
        if off in _names(lo) or f"{off}[" in lo_full:
            why = (f"`{dom}` has one entry per integral group but is sliced from `{lo_txt}`, a kernel offset: as soon as a group has "
                   "several cell types (prism facets) the following types get wrong offsets and kernels become unreachable")
        elif re.search(r"len\((" + "|".join(ilists) + r")\)", lo_full) and src.slice.upper is None:
            # must be evaluated before the extension in this iteration: assigned to a name before the `+=`
            ok = isinstance(lo, ast.Name)
            if not ok:
                why = f"slice start `{lo_txt}` is evaluated after `{dom}` was extended"
        else:
            why = f"slice start `{lo_txt}` is not the number of groups before this type"
    elif "integral_domains" in st and tvar in _names(src):
        ok = True
    elif isinstance(src, ast.Name) and src.id != dom:
        # a local list built in this iteration from ir.integral_domains[itg_type]
        sl = Slicer(f.node)
        ok = "integral_domains" in sl.text(src) and tvar in sl.names(src)
        if not ok:
            why = f"`{st}` is not the list of this type's domain lists"
    else:
        why = f"`{st}` is not restricted to the groups of the current integral type"
    if not ok:
        res.fail(key2, f"offset increment sums over `{st}`: {why}", m.line(app))
    # initial offset is 0 and the result has one more entry than there are types
    key3 = f"{f.key}:offsets-init"
    res.ob(key3)
    init = [n for n in walk_no_nested(f.node) if isinstance(n, ast.Assign) and isinstance(n.targets[0], ast.Name) and n.targets[0].id == off]
    if not init or ast.unparse(init[0].value) != "[0]":
        res.fail(key3, "offsets do not start at [0]", m.line(f.node))
    # generic: any subscript of an I-list by an expression mentioning the offsets
    key4 = f"{f.key}:no-K-index-into-I-list"
    res.ob(key4)
    for n in walk_no_nested(f.node):
        if isinstance(n, ast.Subscript) and isinstance(n.value, ast.Name) and n.value.id in ilists and off in _names(n.slice):
            if not (n is src):
                res.fail(key4, f"`{ast.unparse(n)}` indexes a per-group list with a kernel offset", m.line(n))


@rule(
    "PERM-CONSISTENT",
    ["C06"],
    "the permutation np.argsort(ids of the type) is applied, through one variable, to ids, names and "
    "domains of the same integral type; the result tuple keeps (names, ids, offsets, domains) in the "
    "field order of IntegralData",
    min_instances=5,
)
def perm_consistent(repo, res):
    m = repo.mod(COMMON)
    f = m.func("integral_data")
    res.functions.add(f.key)
    lp = [n for n in walk_no_nested(f.node) if isinstance(n, ast.For)][0]
    tvar = lp.target.id
    perm = None
    ids_src = None
    bad_producer = None
    for st in lp.body:
        pv, src_, why = _perm_producer(st)
        if pv:
            perm, ids_src = pv, src_
            bad_producer = (why, st) if why else None
    if perm is None:
        raise AnalysisError("integral_data: no index list sorting the ids found (argsort / sorted(range(len(ids))) / unique)")
    key = f"{f.key}:index-list-is-a-permutation"
    res.ob(key)
    if bad_producer:
        res.fail(key, f"the index list `{perm}` comes from {bad_producer[0]}: it is not a permutation of all integrals of the type, so when "
                 "several integral groups share a subdomain id (dx((1,2)) + dx(2, degree=4)) kernels are dropped from the form", m.line(bad_producer[1]))
    sl = Slicer(f.node)
    key = f"{f.key}:argsort-of-ids"
    res.ob(key)
    t = sl.text(ids_src)
    if "subdomain_ids" not in t or tvar not in sl.names(ids_src):
        res.fail(key, f"the sort permutation is computed from `{ast.unparse(ids_src)}`, not from this type's subdomain ids", m.line(lp))
    fields = {"ids": "subdomain_ids", "names": "integral_names", "domains": "integral_domains"}
    seen = {}
    for st in lp.body:
        if isinstance(st, ast.AugAssign) and isinstance(st.value, ast.ListComp) and isinstance(st.target, ast.Name):
            comp = st.value
            g = comp.generators[0]
            elt = comp.elt
            base = elt.value if isinstance(elt, ast.Subscript) else elt
            srcs = ast.unparse(base)
            if isinstance(base, ast.Name):
                srcs += " ;; " + " ;; ".join(ast.unparse(v) for v in sl.defs.get(base.id, []))
            for role, fld in fields.items():
                if fld in srcs:
                    seen[role] = (st, comp)
                    key = f"{f.key}:permuted:{role}"
                    res.ob(key)
                    iter_ok = isinstance(g.iter, ast.Name) and g.iter.id == perm and not g.ifs
                    idx_ok = isinstance(elt, ast.Subscript) and isinstance(elt.slice, ast.Name) and isinstance(g.target, ast.Name) and elt.slice.id == g.target.id
                    type_ok = tvar in sl.names(elt)
                    if not (iter_ok and idx_ok and type_ok):
                        res.fail(key, f"{role} are collected as `{ast.unparse(comp)}`: not the {fld} of this type permuted by `{perm}` "
                                 "(ids, names and kernels would be paired wrongly after sorting)", m.line(st))
                    if st.target.id != role and False:
                        pass
    for role in fields:
        if role not in seen:
            res.fail(f"{f.key}:permuted:{role}", f"{role} of the type are not collected through the sort permutation", m.line(lp))
    # return order
    key = f"{f.key}:return-fields"
    res.ob(key)
    cls = m.cls("IntegralData")
    order = [st.target.id for st in cls.body if isinstance(st, ast.AnnAssign)]
    rets = [n for n in walk_no_nested(f.node) if isinstance(n, ast.Return)]
    if not rets or not isinstance(rets[0].value, ast.Call):
        raise AnalysisError("integral_data does not return IntegralData(...)")
    args = [ast.unparse(a) for a in rets[0].value.args] + [f"{k.arg}={ast.unparse(k.value)}" for k in rets[0].value.keywords]
    by_target = {role: st.target.id for role, (st, _c) in seen.items()}
    pos = [a for a in args if "=" not in a]
    expect = [by_target.get(fld, None) for fld in order]
    for i, a in enumerate(pos):
        if i < len(order) and expect[i] is not None and a != expect[i]:
            res.fail(key, f"IntegralData.{order[i]} is filled with `{a}` (the list holding {[r for r, t in by_target.items() if t == a] or '?'})", m.line(rets[0]))
    for k in rets[0].value.keywords:
        if k.arg in by_target and ast.unparse(k.value) != by_target[k.arg]:
            res.fail(key, f"IntegralData.{k.arg} is filled with `{ast.unparse(k.value)}`", m.line(rets[0]))


@rule(
    "TYPE-ORDER",
    ["C06"],
    "the order in which integral types are enumerated by integral_data equals the ufcx_integral_type enum "
    "of ufcx.h (cell, exterior_facet, interior_facet, vertex, ridge = 0..4) and the key set prepared by "
    "_compute_form_ir",
    min_instances=3,
)
def type_order(repo, res):
    h = parse_header(repo.header_text())
    enum = [n for n, _v in sorted(h.enums["ufcx_integral_type"], key=lambda x: x[1])]
    vals = [v for _n, v in sorted(h.enums["ufcx_integral_type"], key=lambda x: x[1])]
    key = "ufcx.h:ufcx_integral_type:dense"
    res.ob(key)
    if vals != list(range(len(vals))):
        res.fail(key, f"enum values {vals} are not 0..n-1: form_integral_offsets is indexed by the enum value", "ffcx/codegeneration/ufcx.h")
    m = repo.mod(COMMON)
    f = m.func("integral_data")
    lp = [n for n in walk_no_nested(f.node) if isinstance(n, ast.For)][0]
    key = f"{f.key}:type-order"
    res.ob(key)
    try:
        order = list(const_value(lp.iter))
    except ValueError:
        order = None
        res.notes.append("integral_data does not enumerate a literal tuple of integral types; the emitted order is decided by GEN-FORM (generators interpreted on the "
                         "IR computed by _compute_form_ir)")
    if order is not None and order != enum:
        res.fail(key, f"integral types are laid out in the order {order}; ufcx.h defines {enum}: offsets[k] would delimit the "
                 "wrong integral type", m.line(lp))
    rep = repo.mod(REP)
    g = rep.func("_compute_form_ir")
    key = f"{g.key}:type-keys"
    res.ob(key)
    tup = None
    for n in walk_no_nested(g.node):
        if isinstance(n, ast.Assign) and isinstance(n.targets[0], ast.Name) and n.targets[0].id == "ufcx_integral_types":
            try:
                tup = list(const_value(n.value))
            except ValueError:
                tup = None
    if tup is None:
        res.notes.append("_compute_form_ir does not hold a literal tuple `ufcx_integral_types`; the per-type dictionaries of the IR are decided by GEN-FORM / FORM-IR-SOURCES")
    elif set(tup) != set(enum):
        res.fail(key, f"FormIR prepares integral types {tup}, ufcx.h has {enum}", rep.line(g.node))
    # numba file template constants agree with the enum (for the types it lists)
    nt = repo.mod("ffcx.codegeneration.numba.file_template")
    txt = const_value(nt.assign("factory"))
    cell_names = {"interval", "triangle", "quadrilateral", "tetrahedron", "hexahedron", "vertex", "prism", "pyramid"}
    for name, val in h.enums["ufcx_integral_type"]:
        if name in cell_names:
            continue  # `vertex = 60` in that template is the basix cell-type code, not the integral type
        mm = re.search(rf"(?m)^{name}\s*=\s*(\d+)\s*$", txt)
        if mm:
            key = f"numba.file_template:{name}"
            res.ob(key)
            if int(mm.group(1)) != val:
                res.fail(key, f"numba file template defines {name} = {mm.group(1)}, ufcx.h says {val}", nt.rel)


@rule(
    "EVERYWHERE-ID",
    ["C06"],
    "in _compute_form_ir exactly the UFL id \"otherwise\" is mapped to -1, ids below -1 are rejected, each "
    "id of a group gets the group's name and domain list, and UFL is told not to append everywhere "
    "integrals to the numbered ones",
    min_instances=2,
)
def everywhere_id(repo, res):
    rep = repo.mod(REP)
    g = rep.func("_compute_form_ir")
    res.functions.add(g.key)
    # the mapping otherwise -> -1 is decided by SUBDOMAIN-IDS (interpreted) and by the interpreted loop below
    # negative ids: rule SUBDOMAIN-IDS (guard interpreted on samples)
    # per id: name and domain of the same group - the loop is interpreted on a sample of integral data
    key = f"{g.key}:per-id-name-domain"
    res.ob(key)
    from ..absint import Interp as _Interp, Node as _Node, Raised as _Raised
    from ..lnodes_model import load_classes as _lc

    groups = [("cell", (2, "otherwise")), ("exterior_facet", (7,)), ("cell", (5,)), ("interior_facet", ("otherwise",))]
    itg = [_Node("IntegralData", integral_type=t, subdomain_id=ids) for t, ids in groups]
    it, args, _n = form_ir_sample(repo, 2, "full", itg=itg)
    args[4] = {(5, k): f"name{k}" for k in range(len(groups))}
    args[5] = {f"name{k}": [f"dom{k}"] for k in range(len(groups))}
    ir_ = None
    try:
        out = it.call_f(g, args)
        ir_ = out.f if isinstance(out, _Node) else None
        if ir_ is None:
            res.fail(key, f"_compute_form_ir returns {out!r}, not a FormIR record", rep.line(g.node))
    except _Raised as e:
        res.fail(key, f"_compute_form_ir raises ({e.what}) on a form with integral groups {groups}", rep.line(g.node))
    if ir_ is not None:
        want_ids, want_names, want_doms = {}, {}, {}
        for k, (t, ids) in enumerate(groups):
            for sid in ids:
                want_ids.setdefault(t, []).append(-1 if sid == "otherwise" else sid)
                want_names.setdefault(t, []).append(f"name{k}")
                want_doms.setdefault(t, []).append([f"dom{k}"])
        for fld, want in (("subdomain_ids", want_ids), ("integral_names", want_names), ("integral_domains", want_doms)):
            got = {t: list(v) for t, v in (ir_.get(fld) or {}).items() if v}
            if got != want:
                res.fail(key, f"for integral groups {groups} FormIR.{fld} = {got}, expected {want}: every id of a group must carry that group's kernel name and domains", rep.line(g.node))
        types = list((ir_.get("subdomain_ids") or {}).keys())
        if types != ["cell", "exterior_facet", "interior_facet", "vertex", "ridge"]:
            res.fail(key, f"integral types are keyed in the order {types}, not the ufcx.h enum order", rep.line(g.node))
    # analysis flag
    an = repo.mod("ffcx.analysis").func("_analyze_form")
    key = f"{an.key}:do_append_everywhere_integrals"
    res.ob(key)
    cs = [c for c in calls_in(an.node) if (call_name(c) or "").endswith("compute_form_data")]
    if len(cs) != 1:
        raise AnalysisError("_analyze_form: compute_form_data call not found")
    kw = {k.arg: k.value for k in cs[0].keywords}
    v = kw.get("do_append_everywhere_integrals")
    if v is None or not (isinstance(v, ast.Constant) and v.value is False):
        res.fail(key, "compute_form_data is not called with do_append_everywhere_integrals=False: dx integrals are also "
                 "added to every dx(i), so everywhere integrals are counted twice by an assembler", "ffcx/analysis.py")


# ---- DESC-FIELDS -------------------------------------------------------------------------------


def _template(mod, name="factory"):
    v = mod.assign(name)
    if not (isinstance(v, ast.Constant) and isinstance(v.value, str)):
        raise AnalysisError(f"{mod.name}.{name} is not a string literal")
    return v.value


def _c_initialisers(tmpl: str, struct: str):
    """[(field, value-text)] of the designated initialiser `struct {factory_name} = { .a = b, ... };`"""
    lit = ""
    for text, fld, spec, conv in string.Formatter().parse(tmpl):
        lit += text
        if fld is not None:
            lit += "{" + fld + "}"
    m = re.search(re.escape(struct) + r"\s+\{factory_name\}\s*=\s*\{(.*?)\n\};", lit, re.S)
    if not m:
        raise AnalysisError(f"initialiser of {struct} not found in template")
    body = m.group(1)
    out = []
    for mm in re.finditer(r"\.(\w+(?:\{\w+\})?)\s*=\s*([^,\n]+)", body):
        out.append((mm.group(1), mm.group(2).strip()))
    loose = [s for s in re.findall(r"(?m)^\s*(\{\w+\})\s*$", body)]
    return out, loose


def _py_class_attrs(tmpl: str):
    lit = ""
    for text, fld, spec, conv in string.Formatter().parse(tmpl):
        lit += text
        if fld is not None:
            lit += "{" + fld + "}"
    m = re.search(r"class \{factory_name\}[^\n]*:\n(.*?)(?:\n\S|\Z)", lit, re.S)
    if not m:
        raise AnalysisError("class {factory_name} not found in numba template")
    return [(a, v.strip()) for a, v in re.findall(r"(?m)^\s+(\w+)\s*=\s*(.+)$", m.group(1))]


def _slot_sources(gen_func, dict_names=("d", "code")):
    """slot -> set of `ir.<attr>` chains its value is computed from (through locals)."""
    sl = Slicer(gen_func.node)
    out = {}
    for n in walk_no_nested(gen_func.node):
        if isinstance(n, ast.Assign) and isinstance(n.targets[0], ast.Subscript) and isinstance(n.targets[0].value, ast.Name) \
                and n.targets[0].value.id in dict_names and isinstance(n.targets[0].slice, ast.Constant):
            slot = n.targets[0].slice.value
            chains = {c for c in sl.attr_chains(n.value) if c.startswith(("ir.", "integrals.", "options"))}
            names = sl.names(n.value)
            out.setdefault(slot, set()).update(chains)
            if "points" in names:
                out[slot].add("points")
            if "domain" in names and "domain" in gen_func.params:
                out[slot].add("domain")
            if "integrals" in names:
                out[slot].update(c for c in sl.attr_chains(n.value) if c.startswith("integrals."))
    # keyword arguments of a direct factory.format(...) call
    for c in calls_in(gen_func.node):
        if isinstance(c.func, ast.Attribute) and c.func.attr == "format" and "factory" in (dotted(c.func.value) or ""):
            for k in c.keywords:
                chains = {x for x in sl.attr_chains(k.value) if x.startswith(("ir.", "options"))}
                out.setdefault(k.arg, set()).update(chains)
                if isinstance(k.value, ast.Subscript) and isinstance(k.value.slice, ast.Constant) and k.value.slice.value in out:
                    out[k.arg].update(out[k.value.slice.value])
                if "domain" in sl.names(k.value) and k.arg == "domain":
                    out[k.arg].add("domain")
    return out


FORM_SLOT_SRC = {
    "signature": {"ir.signature"}, "rank": {"ir.rank"}, "num_coefficients": {"ir.num_coefficients"},
    "original_coefficient_positions": {"ir.original_coefficient_positions"},
    "original_coefficient_position_init": {"ir.original_coefficient_positions"},
    "coefficient_names_init": {"ir.coefficient_names"}, "num_constants": {"ir.num_constants"},
    "constant_ranks_init": {"ir.constant_ranks"}, "constant_shapes_init": {"ir.constant_shapes"},
    "constant_names_init": {"ir.constant_names"}, "finite_element_hashes_init": {"ir.finite_element_hashes"},
    "form_integrals_init": {"integrals.names", "integrals.domains"}, "form_integral_ids_init": {"integrals.ids", "integrals.domains"},
    "form_integral_offsets_init": {"integrals.offsets"}, "name_from_uflfile": {"ir.name_from_uflfile"}, "factory_name": {"ir.name"},
}
FORM_FIELD_SLOT = {
    "signature": "signature", "rank": "rank", "num_coefficients": "num_coefficients",
    "original_coefficient_positions": "original_coefficient_positions", "coefficient_name_map": "coefficient_names",
    "num_constants": "num_constants", "constant_ranks": "constant_ranks", "constant_shapes": "constant_shapes",
    "constant_name_map": "constant_names", "finite_element_hashes": "finite_element_hashes", "form_integrals": "form_integrals",
    "form_integral_ids": "form_integral_ids", "form_integral_offsets": "form_integral_offsets_{factory_name}",
}
EXPR_SLOT_SRC = {
    "num_points": {"points"}, "entity_dimension": {"points"}, "points_init": {"points"}, "points": {"points"},
    "value_shape_init": {"ir.expression.shape"}, "value_shape": {"ir.expression.shape"}, "num_components": {"ir.expression.shape"},
    "rank": {"ir.expression.tensor_shape"}, "num_coefficients": {"ir.expression.coefficient_numbering"},
    "num_constants": {"ir.constant_names"}, "original_coefficient_positions_init": {"ir.original_coefficient_positions"},
    "original_coefficient_positions": {"ir.original_coefficient_positions"},
    "coefficient_names_init": {"ir.coefficient_names"}, "coefficient_names": {"ir.coefficient_names"},
    "constant_names_init": {"ir.constant_names"}, "constant_names": {"ir.constant_names"},
    "coordinate_element_hash": {"ir.expression.coordinate_element_hash"}, "name_from_uflfile": {"ir.name_from_uflfile"},
    "factory_name": {"ir.expression.name"},
}
INTEGRAL_SLOT_SRC = {
    "enabled_coefficients": {"ir.enabled_coefficients"}, "needs_facet_permutations": {"ir.expression.needs_facet_permutations"},
    "coordinate_element_hash": {"ir.expression.coordinate_element_hash"}, "domain": {"domain"},
}


@rule(
    "DESC-FIELDS",
    ["C06", "C04", "C05", "C18", "C20"],
    "for ufcx_form / ufcx_integral / ufcx_expression: every field of the struct in ufcx.h is initialised "
    "exactly once by the C template and carried as an attribute by the numba template class (no unknown "
    "field), and both templates fill a field from the same slot (which IR value each slot receives: GEN-FORM, GEN-INTEGRAL, "
    "GEN-EXPRESSION-DESC)",
    min_instances=80,
)
def desc_fields(repo, res):
    h = parse_header(repo.header_text())
    specs = [
        ("ufcx_form", "form", FORM_SLOT_SRC, ("C06", "C18", "C20")),
        ("ufcx_expression", "expression", EXPR_SLOT_SRC, ("C04", "C18", "C20")),
        ("ufcx_integral", "integral", INTEGRAL_SLOT_SRC, ("C05", "C06", "C18", "C20")),
    ]
    for struct, kind, slot_src, props in specs:
        fields = h.structs[struct]
        ct = repo.mod(f"ffcx.codegeneration.C.{kind}_template")
        nt = repo.mod(f"ffcx.codegeneration.numba.{kind}_template")
        cg = repo.mod(f"ffcx.codegeneration.C.{kind}").func("generator")
        ng = repo.mod(f"ffcx.codegeneration.numba.{kind}").func("generator")
        res.functions.update({cg.key, ng.key})
        inits, loose = _c_initialisers(_template(ct), struct)
        init_names = [a for a, _ in inits]
        kernel_fields = [f.name for f in fields if f.name.startswith("tabulate_tensor_")]
        data_fields = [f.name for f in fields if not f.name.startswith("tabulate_tensor_")]
        # --- C template vs struct
        for fld in data_fields:
            key = f"C.{kind}_template:{struct}.{fld}"
            res.ob(key)
            n = init_names.count(fld)
            if n != 1:
                res.fail(key, f"field {struct}.{fld} is initialised {n} times by the C template (left zero / duplicated)", ct.rel, props=props)
        for a in init_names:
            base = a.split("{")[0]
            if a not in data_fields and not (base == "tabulate_tensor_" and "{" in a) and a not in kernel_fields:
                res.fail(f"C.{kind}_template:unknown:{a}", f"C template initialises `.{a}`, which is not a field of {struct} in ufcx.h", ct.rel, props=props)
        # kernel pointer fields
        key = f"C.{kind}_template:{struct}.tabulate_tensor"
        res.ob(key)
        if kind == "expression":
            dyn = [a for a in init_names if a.startswith("tabulate_tensor_{")]
            if len(dyn) != 1 or dict(inits)[dyn[0]] != "tabulate_tensor_{factory_name}":
                res.fail(key, "ufcx_expression must initialise exactly one tabulate_tensor_<scalar type> field with its kernel", ct.rel, props=props)
        if kind == "integral":
            slots = [s.strip("{}") for s in loose]
            want = [f"tabulate_tensor_{t}" for t in ("float32", "float64", "complex64", "complex128")]
            if sorted(slots) != sorted(want):
                res.fail(key, f"ufcx_integral template has kernel slots {slots}, expected {want}", ct.rel, props=props)
            # which slot the generator fills for which scalar type: rule GEN-INTEGRAL (generator interpreted)
        # --- numba class vs struct
        attrs = _py_class_attrs(_template(nt))
        attr_names = [a for a, _ in attrs]
        for fld in data_fields:
            key = f"numba.{kind}_template:{struct}.{fld}"
            res.ob(key)
            if attr_names.count(fld) != 1:
                res.fail(key, f"numba template class lacks (or repeats) attribute {fld} of {struct}", nt.rel, props=("C18", "C20"))
        for a in attr_names:
            if a not in data_fields and a != "tabulate_tensor":
                res.fail(f"numba.{kind}_template:unknown:{a}", f"numba template class has attribute {a}, not a field of {struct}", nt.rel, props=("C18", "C20"))
        # --- field -> slot mapping identical in both templates
        cmap = {a.split("{")[0] if a.startswith("tabulate") else a: v for a, v in inits}
        nmap = dict(attrs)
        for fld in data_fields:
            if fld in cmap and fld in nmap:
                key = f"{kind}_template:slot-of:{fld}"
                res.ob(key)
                cs_ = set(re.findall(r"\{(\w+)\}", cmap[fld]))
                ns_ = set(re.findall(r"\{(\w+)\}", nmap[fld]))
                if cs_ != ns_:
                    res.fail(key, f"{struct}.{fld} is filled from slot {sorted(cs_)} in C and {sorted(ns_)} in numba", nt.rel, props=("C18", "C20"))
                if kind == "form" and fld in FORM_FIELD_SLOT:
                    want = FORM_FIELD_SLOT[fld]
                    got = cmap[fld]
                    if got.strip("{}") != want and got != want:
                        res.fail(key, f"C template fills {struct}.{fld} with `{got}`, expected slot {want}", ct.rel, props=props)
        # which IR value each slot receives, in both backends: GEN-FORM / GEN-INTEGRAL / GEN-EXPRESSION-DESC (generators interpreted, emitted text read back)


def _slot_expr(g, slot):
    for n in walk_no_nested(g.node):
        if isinstance(n, ast.Assign) and isinstance(n.targets[0], ast.Subscript) and isinstance(n.targets[0].slice, ast.Constant) \
                and n.targets[0].slice.value == slot:
            return ast.unparse(n.value)
    return None


def _norm_expr(t: str) -> str:
    t = re.sub(r"\bint\((.*)\)$", r"\1", t)
    return t.replace(" ", "")


def form_ir_sample(repo, nargs, part, itg=None, names=None, domains=None):
    """(interpreter, arguments, nargs) for _compute_form_ir on a sample FormData; `itg` overrides the integral data groups."""
    from ..absint import Interp, Node, _PyCall
    from ..lnodes_model import load_classes

    rep_name = REP
    V = Node("FunctionSpace", name="V")
    els = [Node("Element", basix_hash=_PyCall(lambda h_=h: h_)) for h in (11, 22, 33, 44)]
    elA = Node("Element", basix_hash=_PyCall(lambda: 99))
    args = [Node("Argument", name=f"a{i}", ufl_function_space=_PyCall(lambda: V), ufl_element=_PyCall(lambda e_=els[i]: e_)) for i in range(nargs)]
    from ..npmodel import NPInt
    # k2's shape was given as NumPy integers (shape=(np.int64(2),)), as mesh-derived sizes often are
    consts = [Node("Constant", name="k0", ufl_shape=()), Node("Constant", name="k1", ufl_shape=(2, 3)), Node("Constant", name="k2", ufl_shape=(NPInt(2),))]
    coefs = [Node("Coefficient", name="B", ufl_element=_PyCall(lambda: els[2])), Node("Coefficient", name="C", ufl_element=_PyCall(lambda: els[3]))]
    # the original form has a further coefficient A (first position) that preprocessing eliminated: reduced_coefficients = [B, C]
    coefA = Node("Coefficient", name="A", ufl_element=_PyCall(lambda: elA))
    form = Node("Form", signature=_PyCall(lambda: "SIG"), arguments=_PyCall(lambda: list(args)), constants=_PyCall(lambda: list(consts)),
                coefficients=_PyCall(lambda: [coefA] + list(coefs)))
    if itg is None:
        itg = [Node("IntegralData", integral_type="cell", subdomain_id=(3, "otherwise")), Node("IntegralData", integral_type="exterior_facet", subdomain_id=(7,))]
    # the preprocessed form lost a constant and an argument-independent coefficient: a plausible but wrong source for every count
    pre = Node("Form", signature=_PyCall(lambda: "SIG-PRE"), arguments=_PyCall(lambda: list(args)), constants=_PyCall(lambda: list(consts[1:])),
               coefficients=_PyCall(lambda: list(coefs[1:])))
    fd = Node("FormData", original_form=form, preprocessed_form=pre, reduced_coefficients=list(coefs), original_coefficient_positions=[1, 2], argument_elements=els[:nargs],
              coefficient_elements=els[2:], integral_data=itg)
    if names is None:
        names = {(5, 0): "integral_a", (5, 1): "integral_b"}
    if domains is None:
        domains = {"integral_a": ["dom_a"], "integral_b": ["dom_b1", "dom_b2"]}
    onames = {id(coefs[0]): "beta", id(consts[1]): "kappa", id(form): "a"}
    it = Interp(repo, load_classes(repo), primary=REP)
    it.overrides["logger"] = Node("Logger", info=_PyCall(lambda *a: None), debug=_PyCall(lambda *a: None))
    it.overrides["id"] = _PyCall(lambda o: id(o))
    it.overrides["FormIR"] = _PyCall(lambda **k: Node("FormIR", **k))
    # library fact (ufl/measure.py): the registered integral types, sorted alphabetically
    it.overrides["ufl.measure.integral_types"] = _PyCall(lambda: tuple(sorted((
        "cell", "exterior_facet", "interior_facet", "ridge", "vertex", "custom", "cutcell", "interface", "overlap", "exterior_facet_bottom", "exterior_facet_top",
        "exterior_facet_vert", "interior_facet_horiz", "interior_facet_vert"))))
    tp = f"TensorPart.{part}"
    return it, [fd, 5, "p", {5: "form_name"}, names, domains, onames, tp], nargs



@rule(
    "FORM-IR-SOURCES",
    ["C06", "C05"],
    "each FormIR field is computed from the documented source: rank from the original form's arguments "
    "(1 for a diagonalised bilinear form), coefficients from form_data.reduced_coefficients / "
    "original_coefficient_positions, constants (count, ranks, shapes, names) all from "
    "original_form.constants(), element hashes from argument then coefficient elements",
    min_instances=9,
)
def form_ir_sources(repo, res):
    """_compute_form_ir interpreted as a whole on a sample FormData; every FormIR field is compared with its documented source."""
    from ..absint import Interp, Node, Raised, _PyCall
    from ..lnodes_model import load_classes

    rep = repo.mod(REP)
    g = rep.func("_compute_form_ir")
    res.functions.add(g.key)

    def sample(nargs, part):
        return form_ir_sample(repo, nargs, part)

    cases = {"bilinear form": (2, "full"), "bilinear form, diagonal part": (2, "diagonal"), "linear form": (1, "full"), "linear form with part=diagonal": (1, "diagonal"),
             "functional": (0, "full")}
    results = {}
    for label, (nargs, part) in cases.items():
        it, args, _n = sample(nargs, part)
        try:
            results[label] = it.call_f(g, args)
        except Raised as e:
            results[label] = f"raises {e.what}"
    want_common = {
        "signature": "SIG", "num_coefficients": 2, "coefficient_names": ["beta", "w1"], "num_constants": 3, "constant_ranks": [0, 2, 1],
        "constant_shapes": [(), (2, 3), (2,)], "constant_names": ["c0", "kappa", "c2"], "original_coefficient_positions": [1, 2],
        "name": "form_name", "name_from_uflfile": "form_p_a", "id": 5,
    }
    why = {
        "num_constants": "the constants of the original form (what the caller packs into c)", "constant_ranks": "rank of each constant of the original form, in order",
        "constant_shapes": "shape of each constant of the original form, in order", "constant_names": "names follow the constants of the original form, in order",
        "num_coefficients": "the reduced coefficients (what the caller packs into w)", "coefficient_names": "names follow form_data.reduced_coefficients",
        "original_coefficient_positions": "UFL's positions of the reduced coefficients in the original form",
    }
    for fld, want in want_common.items():
        key = f"{g.key}:ir[{fld}]"
        res.ob(key)
        for label, out in results.items():
            if isinstance(out, str):
                res.fail(key, f"_compute_form_ir {out} on a sample {label}", rep.line(g.node))
                break
            got = out.f.get(fld, "<missing>")
            got_n = [tuple(x) if isinstance(x, (list, tuple)) else x for x in got] if isinstance(got, list) else got
            if got_n != want:
                res.fail(key, f"FormIR.{fld} of a sample {label} is {got!r}, expected {want!r}" + (f" ({why[fld]})" if fld in why else ""), rep.line(g.node))
                break
    key = f"{g.key}:ir[constant_shapes]:plain-integers"
    res.ob(key)
    for label, out in results.items():
        if isinstance(out, str):
            continue
        bad = [x for sh in out.f.get("constant_shapes", []) for x in sh if type(x) is not int]
        if bad:
            res.fail(key, f"FormIR.constant_shapes of a sample {label} keeps the NumPy integer {bad[0]!r} of a constant declared with shape=(np.int64(2),): both form "
                     f"generators print the shape with str(tuple), which gives `{bad[0]!r},` - not a C initialiser (\"'np' undeclared\") and not importable Python",
                     rep.line(g.node))
            break
    key = f"{g.key}:ir[finite_element_hashes]"
    res.ob(key)
    for label, (nargs, part) in cases.items():
        out = results[label]
        if isinstance(out, str):
            continue
        want = [11, 22][:nargs] + [33, 44]
        if list(out.f.get("finite_element_hashes", [])) != want:
            res.fail(key, f"FormIR.finite_element_hashes of a sample {label} is {out.f.get('finite_element_hashes')}, expected {want}: argument elements first, "
                     "then coefficient elements", rep.line(g.node))
            break
    key = f"{g.key}:ir[rank]"
    res.ob(key)
    for label, (nargs, part) in cases.items():
        out = results[label]
        if isinstance(out, str):
            continue
        want = 1 if (nargs == 2 and part == "diagonal") else nargs
        if out.f.get("rank") != want:
            res.fail(key, f"FormIR.rank of a sample {label} is {out.f.get('rank')}, expected {want}: the number of arguments of the original form, 1 for the "
                     "diagonal of a bilinear form", rep.line(g.node))
            break
    key = f"{g.key}:ir[integrals]"
    res.ob(key)
    out = results["bilinear form"]
    if not isinstance(out, str):
        got = {t_: list(zip(out.f["subdomain_ids"][t_], out.f["integral_names"][t_], [tuple(d_) for d_ in out.f["integral_domains"][t_]]))
               for t_ in out.f.get("subdomain_ids", {}) if out.f["subdomain_ids"][t_]}
        want = {"cell": [(3, "integral_a", ("dom_a",)), (-1, "integral_a", ("dom_a",))], "exterior_facet": [(7, "integral_b", ("dom_b1", "dom_b2"))]}
        if got != want:
            res.fail(key, f"(subdomain id, kernel name, cell types) per integral type are {got}, expected {want}: one entry per subdomain id of each integral group, "
                     "\"otherwise\" as -1, each next to its own kernel", rep.line(g.node))


@rule(
    "KERNEL-SIG",
    ["C09", "C04", "C18", "C20"],
    "the kernel signature of the C integral and expression templates equals the four "
    "ufcx_tabulate_tensor_* typedefs of ufcx.h (parameter count, order, constness, scalar vs geometry "
    "type positions); dtype_to_c_type/ dtype_to_scalar_dtype give the C type of each typedef; the regular "
    "expressions jit.py applies to ufcx.h still extract every declaration the cdef needs",
    min_instances=20,
)
def kernel_sig(repo, res):
    h = parse_header(repo.header_text())
    ctype = {"float32": ("float", "float"), "float64": ("double", "double"),
             "complex64": ("float _Complex", "float"), "complex128": ("double _Complex", "double")}
    for t, (sc, ge) in ctype.items():
        td = h.typedefs.get(f"ufcx_tabulate_tensor_{t}")
        key = f"ufcx.h:typedef:{t}"
        res.ob(key)
        if td is None:
            res.fail(key, f"ufcx.h lacks typedef ufcx_tabulate_tensor_{t}", "ffcx/codegeneration/ufcx.h")
            continue
        for kind in ("integral", "expression"):
            tm = repo.mod(f"ffcx.codegeneration.C.{kind}_template")
            tmpl = _template(tm)
            lit = ""
            for text, fld, spec, conv in string.Formatter().parse(tmpl):
                lit += text + ("{" + fld + "}" if fld is not None else "")
            m = re.search(r"void\s+tabulate_tensor_\{factory_name\}\s*\((.*?)\)\s*\{", lit, re.S)
            if not m:
                raise AnalysisError(f"C {kind} template: kernel header not found")
            params = []
            for p in m.group(1).split(","):
                p = re.sub(r"\s+", " ", p).strip()
                mm = re.match(r"(.+?)\s*(\w+)$", p)
                params.append((mm.group(1).strip(), mm.group(2)))
            key = f"C.{kind}_template:signature:{t}"
            res.ob(key)
            inst = [(ty.replace("{scalar_type}", sc).replace("{geom_type}", ge), nm) for ty, nm in params]
            if inst != td:
                diff = [f"{a} vs {b}" for a, b in zip(inst, td) if a != b] or [f"{len(inst)} vs {len(td)} parameters"]
                res.fail(key, f"kernel signature of the C {kind} template instantiated for {t} differs from ufcx.h: {'; '.join(diff[:3])}",
                         tm.rel, props=("C09", "C04", "C20") if kind == "expression" else ("C09", "C20"))
    # which C types the generators instantiate {scalar_type} / {geom_type} with: GEN-INTEGRAL / GEN-EXPRESSION-DESC (generators interpreted per scalar type)
    # dtype_to_c_type: interpreted with the dtype model on every spelling of the types a kernel can be generated for
    from ..absint import Interp as _Iu, Raised as _Ru, _PyCall as _PCu
    from ..lnodes_model import load_classes as _lcu
    from ..npmodel import DT as _DTu, install as _install_np

    u = repo.mod("ffcx.codegeneration.utils")
    f = u.func("dtype_to_c_type")
    res.functions.add(f.key)
    want = {"float32": "float", "float64": "double", "complex64": "float _Complex", "complex128": "double _Complex", "longdouble": "long double", "intc": "int"}
    for nm_, cty in want.items():
        key = f"{f.key}:{cty}"
        res.ob(key)
        for spelled in (nm_, _DTu(nm_), f"np.{nm_}"):
            try:
                got = _install_np(_Iu(repo, _lcu(repo), primary="ffcx.codegeneration.utils")).call_f(f, [spelled])
            except _Ru as e_:
                got = f"raises {e_.what}"
            if got != cty:
                res.fail(key, f"dtype_to_c_type({spelled!r}) gives {got!r}, expected {cty!r}: kernels and tables would be declared with another C type", u.line(f.node),
                         props=("C09",))
                break
    # numba signature helper: interpreted with recording stand-ins for numba's type constructors
    nsig = u.func("numba_ufcx_kernel_signature")
    key = f"{nsig.key}:params"
    res.ob(key)
    itn = _install_np(_Iu(repo, _lcu(repo), primary="ffcx.codegeneration.utils"))
    itn.overrides["numba.types.CPointer"] = _PCu(lambda t: ("ptr", t))
    itn.overrides["numba.types.intc"] = "intc"
    itn.overrides["numba.types.uint8"] = "uint8"
    itn.overrides["numba.from_dtype"] = _PCu(lambda d: ("dt", str(d)))

    void = _PCu(lambda *a: ("sig",) + tuple(a))   # numba's `void` is a type and, called, a signature constructor
    itn.overrides["numba.types.void"] = void
    try:
        sig_ = itn.call_f(nsig, ["complex64", "float32"])
    except _Ru as e_:
        sig_ = f"raises {e_.what}"
    want_sig = ("sig", ("ptr", ("dt", "complex64")), ("ptr", ("dt", "complex64")), ("ptr", ("dt", "complex64")), ("ptr", ("dt", "float32")), ("ptr", "intc"), ("ptr", "uint8"),
                ("ptr", void))
    if sig_ != want_sig:
        res.fail(key, f"numba kernel signature for (complex64, float32) is {sig_!r}; the UFCx kernel takes (A, w, c: scalar*; coordinate_dofs: real*; entity_local_index: int*; "
                 "quadrature_permutation: uint8_t*; custom_data: void*)", u.line(nsig.node), props=("C18", "C20"))
    # what jit.py extracts from ufcx.h for the cffi cdef: the module's top level is interpreted on the header text (regular expressions are Python's own),
    # and the declarations it leaves in UFC_HEADER_DECL / UFC_INTEGRAL_DECL / UFC_FORM_DECL / UFC_EXPRESSION_DECL - assembled as compile_forms and
    # compile_expressions assemble them - are read back with the declaration reader used for ufcx.h itself: every kernel typedef and the three
    # descriptor structs must be there, complete, once, and equal to the header's
    from ..absint import Interp as _Ij, PyNative as _PNj, _PyCall as _PCj
    from ..lnodes_model import load_classes as _lcj

    class _HeaderFile(_PNj):
        def __init__(self, text):
            self.text = text

        def __enter__(self):
            return self

        def __exit__(self, *a):
            return False

        def read(self):
            return self.text

        def readlines(self):
            return self.text.splitlines(keepends=True)

        def __iter__(self):
            return iter(self.readlines())

    def header_open(path, *a, **k):
        if not str(path).endswith("ufcx.h"):
            raise AnalysisError(f"jit.py opens `{path}` at import")
        return _HeaderFile(repo.header_text())
    itj = _Ij(repo, _lcj(repo), primary="ffcx.codegeneration.jit")
    itj.overrides["open"] = _PCj(header_open)
    itj.overrides["sys.platform"] = "linux"
    itj.overrides["os.path.dirname"] = _PCj(lambda p_: "/pkg/ffcx/codegeneration")
    itj.overrides["os.path.abspath"] = _PCj(lambda p_: "/pkg/ffcx/codegeneration/jit.py")
    itj.overrides["__file__"] = "/pkg/ffcx/codegeneration/jit.py"
    itj.overrides["logging.getLogger"] = _PCj(lambda *a: "logger")
    for fn_ in ("findall", "sub", "search", "match", "finditer", "compile", "split", "escape"):
        itj.overrides[f"re.{fn_}"] = _PCj(getattr(re, fn_))
    itj.overrides["re.DOTALL"] = re.DOTALL
    itj.overrides["re.S"] = re.S
    itj.overrides["re.MULTILINE"] = re.MULTILINE
    envj, problems = itj.module_env("ffcx.codegeneration.jit")
    names = ("UFC_HEADER_DECL", "UFC_INTEGRAL_DECL", "UFC_FORM_DECL", "UFC_EXPRESSION_DECL")
    missing = [n_ for n_ in names if not isinstance(envj.get(n_), str)]
    if missing:
        raise AnalysisError(f"jit.py: module-level {missing} not evaluable ({[p_ for p_ in problems if set(p_[0]) & set(missing)][:1]})")
    for what, parts in (("compile_forms", ("UFC_INTEGRAL_DECL", "UFC_FORM_DECL")), ("compile_expressions", ("UFC_INTEGRAL_DECL", "UFC_FORM_DECL", "UFC_EXPRESSION_DECL"))):
        key = f"jit:cdef:{what}"
        res.ob(key)
        try:
            cdef = envj["UFC_HEADER_DECL"].format("float64") + "".join(envj[p_] for p_ in parts)
        except (KeyError, IndexError, ValueError) as e_:
            res.fail(key, f"the header part of the cdef cannot be instantiated with the scalar type name ({e_})", "ffcx/codegeneration/jit.py", props=("C20", "C09"))
            continue
        need_structs = ["ufcx_integral", "ufcx_form"] + (["ufcx_expression"] if what == "compile_expressions" else [])
        need_typedefs = [f"ufcx_tabulate_tensor_{t_}" for t_ in ("float32", "float64", "complex64", "complex128")]
        stripped = re.sub(r"/\*.*?\*/", "", cdef, flags=re.S)
        stripped = re.sub(r"//[^\n]*", "", stripped)
        for nm_ in need_typedefs:
            hits = re.findall(rf"typedef\s+void\s*\(\s*{nm_}\s*\)\s*\((.*?)\)\s*;", stripped, re.S)
            got = None
            if len(hits) == 1:
                got = []
                for p_ in hits[0].split(","):
                    p_ = re.sub(r"\s+", " ", p_).strip()
                    mm_ = re.match(r"(.+?)\s*(\w+)$", p_)
                    got.append((mm_.group(1).strip(), mm_.group(2)) if mm_ else (p_, "?"))
            if got != h.typedefs.get(nm_):
                res.fail(key, f"the cdef assembled for {what} declares the kernel type {nm_} {len(hits)} time(s) / as {got}; ufcx.h declares it once as "
                         f"{h.typedefs.get(nm_)}: cffi would reject the module or call the kernels through another signature", "ffcx/codegeneration/jit.py",
                         props=("C20", "C09"))
                break
        for st_ in need_structs:
            hits = re.findall(rf"typedef\s+struct\s+{st_}\s*\{{(.*?)\}}\s*{st_}\s*;", stripped, re.S)
            ref = re.findall(rf"typedef\s+struct\s+{st_}\s*\{{(.*?)\}}\s*{st_}\s*;", re.sub(r"//[^\n]*", "", re.sub(r"/\*.*?\*/", "", repo.header_text(), flags=re.S)), re.S)
            norm_ = lambda t_: re.sub(r"\s+", " ", re.sub(r"#\s*(ifndef|endif)[^\n]*", "", t_)).strip()  # noqa: E731
            if len(hits) != 1 or len(ref) != 1 or norm_(hits[0]) != norm_(ref[0]):
                res.fail(key, f"the cdef assembled for {what} declares struct {st_} {len(hits)} time(s){'' if len(hits) != 1 else ' with other members than ufcx.h'}: the "
                         "objects of the compiled module would be read through another layout", "ffcx/codegeneration/jit.py", props=("C20", "C09"))
                break
    key = "jit:header-decl-markers"
    res.ob(key)
    if repo.header_text().count("<HEADER_DECL>") != 1 or repo.header_text().count("</HEADER_DECL>") != 1:
        res.fail(key, "ufcx.h lacks the <HEADER_DECL> markers jit.py splits on", "ffcx/codegeneration/ufcx.h", props=("C20",))


@rule(
    "EXPR-COEF-POS",
    ["C04", "C05", "C08"],
    "_compute_expression_ir receives (processed expression, points, original expression), built in that order by "
    "analyze_ufl_objects. original_coefficient_positions must hold, for every coefficient of the *processed* "
    "expression in its numbering order, its index among the coefficients of the *original* expression "
    "(reaching definitions decide which tuple component each name holds where it is used); constant names / count and "
    "constant offsets are taken from the same (original) expression",
    min_instances=5,
)
def expr_coef_pos(repo, res):
    from ..cfg import CFG, reaching_definitions

    an = repo.mod("ffcx.analysis")
    f = an.func("analyze_ufl_objects")
    res.functions.add(f.key)
    key = f"{f.key}:expression-triple"
    res.ob(key)
    src = ast.unparse(f.node)
    mm = re.search(r"(\w+) = _analyze_expression\((\w+), scalar_type\)\n\s+(\w+)(?: \+= \[|\.append\()\((\w+), (\w+), (\w+)\)[\])]", src)
    if not mm:
        raise AnalysisError("analyze_ufl_objects: construction of the processed-expression triple not recognised")
    if not (mm.group(4) == mm.group(1) and mm.group(6) == mm.group(2)):
        res.fail(key, f"expression triple is ({mm.group(4)}, {mm.group(5)}, {mm.group(6)}), not (processed, points, original)", an.line(f.node))
    rep = repo.mod("ffcx.ir.representation")
    g = rep.func("_compute_expression_ir")
    res.functions.add(g.key)
    cfg = CFG(g.node)
    IN, _ = reaching_definitions(cfg, set(g.params))
    byid = {n.id: n for n in cfg.nodes}
    param = g.params[0]

    def component(name, nid, depth=0):
        """Which component of the parameter tuple does `name` hold at node nid? -> set of ints / '?'."""
        out = set()
        for d in IN[nid].get(name, ()):
            if d == -1:
                out.add("tuple")
                continue
            a = byid[d].ast
            if isinstance(a, ast.Assign) and isinstance(a.value, ast.Subscript) and isinstance(a.value.value, ast.Name) \
                    and isinstance(a.value.slice, ast.Constant):
                base = component(a.value.value.id, d, depth + 1) if depth < 5 else {"?"}
                out.add(a.value.slice.value if base == {"tuple"} else "?")
            else:
                out.add("?")
        return out

    def extract_arg_component(call_node_holder, call):
        nid = [n.id for n in cfg.stmt_nodes_containing(call)]
        if not nid or not call.args or not isinstance(call.args[0], ast.Name):
            return {"?"}
        return component(call.args[0].id, nid[0])

    # (1) semantic: interpret the backward slice of `original_coefficient_positions` on sample coefficient lists
    key = f"{g.key}:original_coefficient_positions"
    res.ob(key)
    sem = _positions_by_slice(repo, g)
    if sem is not None:
        got, want, why = sem
        if got != want:
            res.fail(key, f"for an original expression with coefficients [A, B, C] whose preprocessing keeps [B, C], the computed "
                     f"original_coefficient_positions are {got}, expected {want}{why}: a caller packing w by these positions hands the kernel the wrong functions",
                     rep.line(g.node))
        res.notes.append("original_coefficient_positions decided by interpreting its backward slice on sample coefficient lists")
        _constant_names_vs_offsets(res, rep, g, cfg, component, repo)
        key = f"{g.key}:numbering-same-list"
        res.ob(key)
        num = _positions_by_slice(repo, g, "coefficient_numbering")
        if num is None:
            raise AnalysisError("_compute_expression_ir: coefficient_numbering slice not interpretable")
        gotn = num[0]
        if not isinstance(gotn, dict) or sorted((k.f.get("name"), v) for k, v in gotn.items()) != [("B", 0), ("C", 1)]:
            res.fail(key, f"coefficient_numbering of the processed coefficients [B, C] is {gotn}, expected B->0, C->1 (the order positions are listed in)", rep.line(g.node))
        # (what is interpreted is the value stored under the IR key, so `stored in the IR` is part of the verdict above)
        # offsets of the coefficients inside w: exclusive prefix sum over the PROCESSED coefficients (what the caller packs)
        key = f"{g.key}:coefficient-offsets"
        res.ob(key)
        off = _positions_by_slice(repo, g, "coefficient_offsets")
        if off is None:
            raise AnalysisError("_compute_expression_ir: coefficient offsets slice not interpretable")
        goto = off[0]
        pairs = sorted((k.f.get("name"), v) for k, v in goto.items()) if isinstance(goto, dict) else goto
        if pairs != [("B", 0), ("C", 3)]:
            res.fail(key, f"for processed coefficients [B (dim 3), C (dim 4)] of an original expression [A (dim 6), B, C] the offsets into w are {pairs}, expected "
                     "B->0, C->3: the descriptor tells the caller to pack only the surviving coefficients, so any other layout reads outside / the wrong part of w",
                     rep.line(g.node), props=("C04", "C05", "C08"))
        return
    # (2) structural fallback: the append site
    app = [c for c in calls_in(g.node) if (call_name(c) or "") == "original_coefficient_positions.append"]
    if len(app) != 1:
        raise AnalysisError("_compute_expression_ir: original_coefficient_positions.append not found exactly once")
    arg = app[0].args[0]
    if not (isinstance(arg, ast.Call) and isinstance(arg.func, ast.Attribute) and arg.func.attr == "index" and isinstance(arg.func.value, ast.Name)
            and len(arg.args) == 1 and isinstance(arg.args[0], ast.Name)):
        res.fail(key, f"appended position is `{ast.unparse(arg)}`, not <coefficients of the original expression>.index(coeff)", rep.line(app[0]))
        return
    lst, item = arg.func.value.id, arg.args[0].id
    loop = [n for n in ast.walk(g.node) if isinstance(n, ast.For) and any(x is app[0] for x in ast.walk(n))]
    if not loop or not (isinstance(loop[-1].target, ast.Name) and loop[-1].target.id == item and isinstance(loop[-1].iter, ast.Name)):
        res.fail(key, "positions are not appended once per coefficient of a plain loop over the processed coefficients", rep.line(app[0]))
        return
    iter_name = loop[-1].iter.id
    site = [n.id for n in cfg.stmt_nodes_containing(app[0])][0]

    def source_of(listname, nid):
        """Component of the tuple whose extract_coefficients(...) defines listname at nid."""
        outs = set()
        for d in IN[nid].get(listname, ()):
            a = byid[d].ast if d in byid else None
            if isinstance(a, ast.Assign) and isinstance(a.value, ast.Call) and (call_name(a.value) or "").endswith("extract_coefficients") \
                    and a.value.args and isinstance(a.value.args[0], ast.Name):
                outs |= component(a.value.args[0].id, d)
            else:
                outs.add("?")
        return outs

    head = [n.id for n in cfg.nodes if n.ast is loop[-1] and n.kind == "test"]
    src_list = source_of(lst, site)
    src_iter = source_of(iter_name, head[0] if head else site)
    if src_list != {2}:
        res.fail(key, f"positions are indices into extract_coefficients(<tuple component {sorted(map(str, src_list))}>) instead of the original "
                 "expression (component 2): after preprocessing removed a coefficient (Dx(g + kappa, 0), kappa in DG0) the caller packs w with "
                 "the wrong functions", rep.line(app[0]))
    if src_iter != {0}:
        res.fail(key, f"positions are listed for extract_coefficients(<tuple component {sorted(map(str, src_iter))}>) instead of the processed "
                 "expression's coefficients (component 0), which is what the kernel's w numbering follows", rep.line(app[0]))
    # numbering follows the same list
    key = f"{g.key}:numbering-same-list"
    res.ob(key)
    num = re.search(r"for (\w+), (\w+) in enumerate\((\w+)\):\n\s+coefficient_numbering\[\2\] = \1", ast.unparse(g.node))
    if not num or num.group(3) != iter_name:
        res.fail(key, "coefficient_numbering does not enumerate the list original_coefficient_positions is built for", rep.line(g.node))
    _constant_names_vs_offsets(res, rep, g, cfg, component, repo)
    key = f"{g.key}:stored"
    res.ob(key)
    if not re.search(r"\['original_coefficient_positions'\] = original_coefficient_positions\b", ast.unparse(g.node)):
        res.fail(key, "the computed positions are not what is stored in the IR", rep.line(g.node))


@rule(
    "FORM-KERNEL-ALIGN",
    ["C06", "C18", "C20"],
    "in both backends' form generators, form_integrals and form_integral_ids are emitted with one entry per kernel "
    "(integral group x cell type): each is a comprehension over zip(integrals.<names|ids>, integrals.domains) with an "
    "inner clause over that group's domain list - the multiplicity form_integral_offsets counts (sum of len(domains))",
    min_instances=4,
)
def form_kernel_align(repo, res):
    for be in ("C", "numba"):
        m = repo.mod(f"ffcx.codegeneration.{be}.form")
        g = m.func("generator")
        res.functions.add(g.key)
        for slot, field in (("form_integrals_init", "names"), ("form_integral_ids_init", "ids")):
            key = f"{g.key}:{slot}:one-entry-per-kernel"
            res.ob(key)
            # the assignment d[slot] = f"...{values}..." and the definition of `values` right before it (same block)
            found = None
            for blk in ast.walk(g.node):
                body = getattr(blk, "body", None)
                if not isinstance(body, list):
                    continue
                for seq in (body, getattr(blk, "orelse", []) or []):
                    for i, st in enumerate(seq):
                        if isinstance(st, ast.Assign) and isinstance(st.targets[0], ast.Subscript) and isinstance(st.targets[0].slice, ast.Constant) \
                                and st.targets[0].slice.value == slot and isinstance(st.value, ast.JoinedStr):
                            names = {n.id for n in ast.walk(st.value) if isinstance(n, ast.Name)}
                            for prev in reversed(seq[:i]):
                                if isinstance(prev, ast.Assign) and isinstance(prev.targets[0], ast.Name) and prev.targets[0].id in names \
                                        and any(isinstance(x, (ast.GeneratorExp, ast.ListComp)) for x in ast.walk(prev.value)):
                                    found = (st, prev)
                                    break
            if found is None:
                raise AnalysisError(f"{be} form generator: emission of {slot} from a comprehension not recognised")
            st, prev = found
            comp = [x for x in ast.walk(prev.value) if isinstance(x, (ast.GeneratorExp, ast.ListComp))][0]
            gens = comp.generators
            it0 = ast.unparse(gens[0].iter).replace(" ", "")
            ok0 = it0 in (f"zip(integrals.{field},integrals.domains)",) and isinstance(gens[0].target, ast.Tuple) and len(gens[0].target.elts) == 2
            if not ok0:
                res.fail(key, f"{be}: {slot} is built from `{ast.unparse(gens[0].iter)}`, not from zip(integrals.{field}, integrals.domains)", m.line(prev),
                         props=("C06", "C18") if be == "C" else ("C06", "C18", "C20"))
                continue
            dom_var = ast.unparse(gens[0].target.elts[1])
            val_var = ast.unparse(gens[0].target.elts[0])
            if len(gens) != 2 or ast.unparse(gens[1].iter) != dom_var:
                res.fail(key, f"{be}: {slot} has one entry per integral group, not one per kernel: a group with several cell types (ds on a prism: "
                         "triangle and quadrilateral facets) makes the list shorter than form_integrals / the offsets, so lookups by "
                         "(type, id, cell type) pick another kernel or run past the end", m.line(prev), props=("C06", "C18") if be == "C" else ("C06", "C18", "C20"))
                continue
            if val_var not in {n.id for n in ast.walk(comp.elt) if isinstance(n, ast.Name)}:
                res.fail(key, f"{be}: entries of {slot} do not use `{val_var}`", m.line(prev), props=("C06", "C18") if be == "C" else ("C06", "C18", "C20"))


def _constant_names_vs_offsets(res, rep, g, cfg, component, repo):
    # constants: names / count are listed for the same expression the kernel's constant offsets are computed from
    # (both slices interpreted on a sample where preprocessing dropped the first constant)
    from ..absint import Raised
    from ..sliceint import value_of
    from ._irsamples import IRSamples, named

    key = f"{g.key}:constant-names-vs-offsets"
    res.ob(key)
    S = IRSamples(repo)
    it, env = S.expression(g, object_names={id(S.consts[1]): "kappa"})
    try:
        offs = value_of(it, g, env, key="original_constant_offsets")
    except Raised as e:
        offs = f"raises {e.what}"
    it, env = S.expression(g, object_names={id(S.consts[1]): "kappa"})
    try:
        names = value_of(it, g, env, key="constant_names")
    except Raised as e:
        names = f"raises {e.what}"
    if named(offs) != [("k0", 0), ("k1", 1), ("k2", 7)]:
        res.fail(key, f"constant offsets of an expression whose original form has constants [k0 (), k1 (2,3), k2 (2,)] are {named(offs)}; they must be computed over "
                 "the original expression", rep.line(g.node))
    elif names != ["c0", "kappa", "c2"]:
        res.fail(key, f"constant names (and num_constants = their number) are {names} while the kernel's offsets into c follow the original expression's constants "
                 "[k0, k1 (named kappa), k2]: when preprocessing eliminates a constant (c2 * Dx(x[0]**2 + c1, 0)) the descriptor announces fewer constants than "
                 "the kernel reads from c", rep.line(g.node))


def _positions_by_slice(repo, g, target="original_coefficient_positions"):
    """Interpret the statements of _compute_expression_ir that define `target` (a local or an IR key) on the sample where
    preprocessing keeps coefficients [B, C] of the original [A, B, C].

    Returns (got, want, explanation) or None when the slice cannot be interpreted."""
    from ..absint import Raised
    from ..sliceint import find_store, value_of
    from ._irsamples import IRSamples

    S = IRSamples(repo)
    it, env = S.expression(g)
    kw = {"key": target} if find_store(g.node, key=target) is not None else {"name": target}
    try:
        got = value_of(it, g, env, **kw)
    except Raised as e:
        return ([f"raises {e.what}"], [1, 2], "")
    except AnalysisError:
        return None
    if not isinstance(got, (list, dict)):
        return None
    return (got, [1, 2], "")


# KERNEL-ONCE moved to rules/cli.py: compute_ir is interpreted and the cell types handed to the form IR are read back.


@rule(
    "RULE-ENTITY-TAG",
    ["C06", "C11"],
    "_group_integrands_by_quadrature_rule keys every rule by the type of the integration entity (cell for cell integrals, "
    "facet type for facet integrals, ridge type for ridge integrals): in the custom and vertex scheme branches the key of "
    "each `rules[...]` store must be re-derived from basix.cell.subentity_types(cell)[-2] / [-3] under the facet / ridge "
    "tests, as the default branch gets it from create_quadrature_points_and_weights; the key becomes the kernel's cell-type tag",
    min_instances=2,
)
def rule_entity_tag(repo, res):
    rep = repo.mod("ffcx.ir.representation")
    f = rep.func("_group_integrands_by_quadrature_rule")
    res.functions.add(f.key)
    stores = [n for n in ast.walk(f.node) if isinstance(n, ast.Assign) and isinstance(n.targets[0], ast.Subscript)
              and isinstance(n.targets[0].value, ast.Name) and n.targets[0].value.id == "rules"]
    if len(stores) < 2:
        raise AnalysisError("_group_integrands_by_quadrature_rule: fewer than two explicit `rules[...] =` stores (custom, vertex)")
    for n_, st in enumerate(stores):
        key = f"{f.key}:rules-key:{n_}"
        res.ob(key)
        k = st.targets[0].slice
        branch = None
        for b in ast.walk(f.node):
            if isinstance(b, ast.If) and "scheme ==" in ast.unparse(b.test) and any(x is st for s_ in b.body for x in ast.walk(s_)):
                branch = b
        if branch is None:
            raise AnalysisError("rules store outside a scheme branch")
        scheme = ast.unparse(branch.test)
        if not isinstance(k, ast.Name):
            res.fail(key, f"under `{scheme}` the rule is keyed by `{ast.unparse(k)}`", rep.line(st))
            continue
        defs = [a for s_ in branch.body for a in ast.walk(s_) if isinstance(a, ast.Assign) and any(isinstance(t, ast.Name) and t.id == k.id for t in a.targets)]
        facet_ok = ridge_ok = False
        for b in ast.walk(branch):
            if isinstance(b, ast.If):
                t = ast.unparse(b.test)
                inner = [a for s_ in b.body for a in ast.walk(s_) if isinstance(a, ast.Assign) and any(isinstance(tt, ast.Name) and tt.id == k.id for tt in a.targets)]
                srcs = " ".join(ast.unparse(s_) for s_ in b.body)
                if "facet" in t and "integral_type" in t and inner and re.search(r"subentity_types\([^)]*\)\[-2\]", srcs):
                    facet_ok = True
                if "ridge" in t and "integral_type" in t and inner and re.search(r"subentity_types\([^)]*\)\[-3\]", srcs):
                    ridge_ok = True
        if k.id == "cell_type" or not defs or not (facet_ok and ridge_ok):
            res.fail(key, f"under `{scheme}` the rule (and so the kernel) is tagged `{k.id}`" + (" = the integration cell" if k.id == "cell_type" or not defs else "")
                     + f" without re-deriving the {'facet' if not facet_ok else 'ridge'} type: m*ds(custom rule) on a quadrilateral mesh yields a kernel tagged "
                     "quadrilateral next to default-rule kernels tagged interval, so a dispatcher by (type, id, cell type) misses it", rep.line(st))
