"""C03: quadrature permutations of interior facets and the needs_facet_permutations flag.

PERM-AXIS       tables are stacked so that index N of the permutation axis means rotations = N div 2,
                reflections = N mod 2 (ufcx.h); ranges 2 / 3x2 / 4x2; the axis is dropped only when all
                permutations give equal tables
PERM-FLAG-IMPL  whenever a table with a permutation axis can be active (so the kernel reads
                quadrature_permutation), needs_facet_permutations is true
"""

from __future__ import annotations

import ast
import itertools
import re

from ..model import AnalysisError, call_name, calls_in, const_value, walk_no_nested
from ..registry import rule

ET = "ffcx.ir.elementtables"


def _loop_chain(func_node, call):
    """Enclosing `for v in range(k)` loops of a call, outermost first: [(var, k)]."""
    chain = []

    def rec(node, acc):
        for ch in ast.iter_child_nodes(node):
            if ch is call:
                chain.extend(acc)
                return True
            nacc = acc
            if isinstance(ch, ast.For) and isinstance(ch.iter, ast.Call) and call_name(ch.iter) == "range" and len(ch.iter.args) == 1 \
                    and isinstance(ch.iter.args[0], ast.Constant) and isinstance(ch.target, ast.Name):
                nacc = acc + [(ch.target.id, ch.iter.args[0].value, ch)]
            if rec(ch, nacc):
                return True
        return False

    rec(func_node, [])
    return chain


@rule(
    "PERM-AXIS",
    ["C03", "C08"],
    "the quadrature point maps permute_quadrature_interval / _triangle / _quadrilateral, interpreted on sample points for every "
    "(reflections, rotations), are the reference-facet symmetries: `rotations` rotations first, then `reflections` reflections; "
    "the caller's points are not modified; defaults are the identity (which slice holds which symmetry: GEN-TABLES)",
    min_instances=10,
)
def perm_axis(repo, res):
    m = repo.mod(ET)
    f = m.func("build_optimized_tables")
    res.functions.add(f.key)
    # which permutations are tabulated into which slice, stacking order and when the axis is dropped: rule GEN-TABLES
    # (build_optimized_tables interpreted with a table oracle that records the points it is handed)
    # is_permuted_table: slices compared over full axes - rule TABLE-INDEX
    # point maps: interpreted on sample points for every (rotations, reflections) the table builder uses
    from fractions import Fraction as Fr

    from ..absint import Interp as _I, Raised as _R
    from ..lnodes_model import load_classes as _lc

    def interval(p_, ref, rot):
        x, = p_
        for _ in range(ref):
            x = 1 - x
        return [x]

    def triangle(p_, ref, rot):
        x, y = p_
        for _ in range(rot):
            x, y = y, 1 - x - y
        for _ in range(ref):
            x, y = y, x
        return [x, y]

    def quadrilateral(p_, ref, rot):
        x, y = p_
        for _ in range(rot):
            x, y = y, 1 - x
        for _ in range(ref):
            x, y = y, x
        return [x, y]

    specs = {"permute_quadrature_interval": (interval, [[Fr(1, 5)], [Fr(3, 4)]], [(r, 0) for r in range(2)]),
             "permute_quadrature_triangle": (triangle, [[Fr(1, 5), Fr(1, 3)], [Fr(1, 2), Fr(1, 8)]], [(r, t) for t in range(3) for r in range(2)]),
             "permute_quadrature_quadrilateral": (quadrilateral, [[Fr(1, 5), Fr(1, 3)], [Fr(7, 8), Fr(1, 8)]], [(r, t) for t in range(4) for r in range(2)])}
    for nm, (spec, pts, combos) in specs.items():
        h = m.func(nm)
        res.functions.add(h.key)
        for ref, rot in combos:
            key = f"{h.key}:map:reflections={ref},rotations={rot}"
            res.ob(key)
            it_ = _I(repo, _lc(repo), primary=ET)
            src = [list(p_) for p_ in pts]
            try:
                args = [src, ref] if nm.endswith("interval") else [src, ref, rot]
                out = it_.call_f(h, args)
            except _R as e:
                res.fail(key, f"{nm} raises ({e.what})", m.line(h.node))
                continue
            want_ = [spec(p_, ref, rot) for p_ in pts]
            if [list(o) for o in out] != want_:
                res.fail(key, f"{nm}(points, reflections={ref}, rotations={rot}) maps {[[str(c) for c in p_] for p_ in pts]} to "
                         f"{[[str(c) for c in o] for o in out]}; the reference-facet symmetry (rotate {rot} times, then reflect {ref} times) gives "
                         f"{[[str(c) for c in w_] for w_ in want_]}", m.line(h.node))
            if src != [list(p_) for p_ in pts]:
                res.fail(key, f"{nm} permutes the caller's points in place: the rule's own points change under the other tables", m.line(h.node))
        key = f"{h.key}:defaults"
        res.ob(key)
        defaults = [ast.unparse(d) for d in h.node.args.defaults]
        if any(d != "0" for d in defaults):
            res.fail(key, f"{nm}: default rotation/reflection counts are {defaults}", m.line(h.node))


def _beval(n, env):
    """Evaluate a boolean expression over names bound in env (tiny interpreter: no eval of repo text)."""
    if isinstance(n, ast.Expression):
        return _beval(n.body, env)
    if isinstance(n, ast.Constant):
        return n.value
    if isinstance(n, ast.Name):
        if n.id not in env:
            raise AnalysisError(f"unknown atom `{n.id}`")
        return env[n.id]
    if isinstance(n, ast.BoolOp):
        vals = [_beval(v, env) for v in n.values]
        return all(vals) if isinstance(n.op, ast.And) else any(vals)
    if isinstance(n, ast.UnaryOp) and isinstance(n.op, ast.Not):
        return not _beval(n.operand, env)
    if isinstance(n, (ast.Tuple, ast.List)):
        return [_beval(e, env) for e in n.elts]
    if isinstance(n, ast.Compare):
        left = _beval(n.left, env)
        for op, c in zip(n.ops, n.comparators):
            right = _beval(c, env)
            r = {ast.Eq: lambda a, b: a == b, ast.NotEq: lambda a, b: a != b, ast.In: lambda a, b: a in b, ast.NotIn: lambda a, b: a not in b,
                 ast.Lt: lambda a, b: a < b, ast.Gt: lambda a, b: a > b, ast.LtE: lambda a, b: a <= b, ast.GtE: lambda a, b: a >= b,
                 ast.Is: lambda a, b: a is b, ast.IsNot: lambda a, b: a is not b}[type(op)](left, right)
            if not r:
                return False
            left = right
        return True
    raise AnalysisError(f"unsupported boolean expression `{ast.unparse(n)[:60]}`")


@rule(
    "PERM-FLAG-IMPL",
    ["C03", "C08"],
    "the kernel reads quadrature_permutation exactly for tables whose is_permuted flag is set, i.e. whose "
    "first axis has more than one slice. needs_facet_permutations must be implied by the existence of "
    "such an active table: either the flag expression contains that term directly, or - evaluated over "
    "all admissible valuations of (integral type, mixed-dimensional, codimension, topological dimension, "
    "restrictions present) - it is true whenever the permutation branch can stack more than one table",
    min_instances=2,
)
def perm_flag_impl(repo, res):
    im = repo.mod("ffcx.ir.integral")
    f = im.func("compute_integral_ir")
    res.functions.add(f.key)
    # the flag's disjuncts (all assignments are or-accumulated)
    assigns = [n for n in walk_no_nested(f.node) if isinstance(n, (ast.Assign, ast.AnnAssign, ast.AugAssign))
               and any(isinstance(t, ast.Name) and t.id == "needs_facet_permutations" for t in ([n.target] if not isinstance(n, ast.Assign) else n.targets))]
    terms = []
    for a in assigns:
        v = a.value
        if v is None or (isinstance(v, ast.Constant) and v.value is False):
            continue
        terms.append(ast.unparse(v))
    key = f"{f.key}:flag-terms"
    res.ob(key)
    if not terms:
        res.fail(key, "needs_facet_permutations is never set", im.line(f.node))
        return
    flag_txt = " or ".join(f"({t})" for t in terms)
    # the flag accumulates over the quadrature rules of the integral: no later rule may reset it
    key_acc = f"{f.key}:flag-accumulates"
    res.ob(key_acc)
    loops = [n for n in walk_no_nested(f.node) if isinstance(n, ast.For)]
    for a in assigns:
        if not any(any(x is a for x in ast.walk(lp)) for lp in loops):
            continue
        v = a.value
        self_or = isinstance(v, ast.BoolOp) and isinstance(v.op, ast.Or) and any(isinstance(x, ast.Name) and x.id == "needs_facet_permutations" for x in v.values)
        aug = isinstance(a, ast.AugAssign) and isinstance(a.op, ast.BitOr)
        guarded = any(isinstance(n, ast.If) and ast.unparse(n.test).replace(" ", "") == "notneeds_facet_permutations" and any(x is a for b in n.body for x in ast.walk(b))
                      for n in walk_no_nested(f.node))
        if not (self_or or aug or guarded):
            res.fail(key_acc, "needs_facet_permutations is overwritten for every quadrature rule instead of accumulated: the last rule of an "
                     "integral decides (f('+')*g('-')*dS(degree=4) + g('+')*dS(degree=2))", im.line(a))
    # (1) direct term: some active table has more than one permutation slice
    direct = re.search(r"any\(\(?\s*(\w+)\.shape\[0\] > 1 for \1 in (\w+)\.values\(\)\s*\)?\)", flag_txt) or \
        re.search(r"any\(\(?\s*(\w+)\.is_permuted for \1 in", flag_txt)
    key = f"{f.key}:flag-implied-by-permuted-table"
    res.ob(key)
    if direct:
        # the tables inspected must be the active tables of this integrand
        src = ast.unparse(f.node)
        var = direct.group(2) if direct.lastindex and direct.lastindex >= 2 else None
        if var and not re.search(rf"\(\s*{var},", src.split("_compute_integral_ir(")[0][-400:]) and var != "active_tables":
            res.notes.append(f"flag inspects `{var}`")
        res.notes.append("flag contains the exact term `some active table has a permutation axis`")
        return
    # (2) enumerate valuations of the structural atoms
    et = repo.mod(ET)
    g = et.func("build_optimized_tables")
    gsrc = ast.unparse(g.node)
    cond = re.search(r"if (integral_type == 'interior_facet'.*?):\n\s+if entity_type == 'facet'", gsrc, re.S)
    if not cond:
        raise AnalysisError("PERM-FLAG-IMPL: permutation branch condition not recognised")
    branch_txt = cond.group(1)
    entity_of = {"cell": ["cell"], "exterior_facet": ["facet"], "interior_facet": ["facet"], "vertex": ["vertex"], "ridge": ["ridge"],
                 "expression": ["cell", "facet"]}
    bad = []
    n = 0
    for itype, ents in entity_of.items():
        for ent in ents:
            for mixed in (False, True):
                for codim in ((0,) if not mixed else (0, 1, 2)):
                    for tdim in (1, 2, 3):
                        for restr in ((), ("+",), ("-",), ("+", "-")):
                            if restr and itype != "interior_facet":
                                continue
                            if itype == "interior_facet" and not restr:
                                continue
                            env = {"integral_type": itype, "entity_type": ent, "is_mixed_dim": mixed, "codim": codim, "tdim": tdim,
                                   "restrictions": list(restr)}
                            try:
                                in_branch = bool(_beval(ast.parse(branch_txt, mode="eval"), env))
                            except Exception as e:
                                raise AnalysisError(f"PERM-FLAG-IMPL: cannot evaluate branch condition: {e}")
                            stacks = False
                            if in_branch and ent == "facet":
                                stacks = not (tdim == 1 or codim == 1) and tdim in (2, 3)
                            if in_branch and ent == "ridge":
                                stacks = not (tdim < 3 or codim == 2)
                            try:
                                flag = bool(_beval(ast.parse(flag_txt, mode="eval"), env))
                            except Exception as e:
                                raise AnalysisError(f"PERM-FLAG-IMPL: cannot evaluate flag expression `{flag_txt}`: {e}")
                            n += 1
                            if stacks and not flag:
                                bad.append(env)
    res.notes.append(f"{n} valuations enumerated")
    if bad:
        ex = bad[0]
        res.fail(key, f"needs_facet_permutations = `{flag_txt}` is false although permuted tables are stacked for "
                 f"{len(bad)} of {n} admissible cases, e.g. integral_type={ex['integral_type']}, tdim={ex['tdim']}, restrictions={ex['restrictions']}, "
                 f"mixed={ex['is_mixed_dim']}: the kernel reads quadrature_permutation[0] while the descriptor says no permutation is needed "
                 "(f('+')*u('+')*v('+')*dS)", im.line(f.node))


# ---- TABLE-INDEX: the two table accessors index every axis consistently with the table flags --------------

def _tv(test, atoms):
    """Three-valued evaluation of a condition over the atoms (None = unknown)."""
    if isinstance(test, ast.Constant):
        return test.value
    txt = ast.unparse(test)
    if txt in atoms:
        return atoms[txt]
    if isinstance(test, ast.UnaryOp) and isinstance(test.op, ast.Not):
        v = _tv(test.operand, atoms)
        return None if v is None else (not v)
    if isinstance(test, ast.BoolOp):
        vals = [_tv(v, atoms) for v in test.values]
        if isinstance(test.op, ast.And):
            if any(v is False for v in vals):
                return False
            return None if any(v is None for v in vals) else True
        if any(v is True for v in vals):
            return True
        return None if any(v is None for v in vals) else False
    if isinstance(test, (ast.Tuple, ast.List)):
        vals = [_tv(e, atoms) for e in test.elts]
        return None if any(v is None for v in vals) else vals
    if isinstance(test, ast.Compare) and len(test.ops) == 1:
        a, b = _tv(test.left, atoms), _tv(test.comparators[0], atoms)
        lk = ast.unparse(test.left) in atoms or isinstance(test.left, ast.Constant)
        rk = ast.unparse(test.comparators[0]) in atoms or isinstance(test.comparators[0], (ast.Constant, ast.Tuple, ast.List))
        if not (lk and rk):
            return None
        op = test.ops[0]
        if isinstance(op, ast.Eq):
            return a == b
        if isinstance(op, ast.NotEq):
            return a != b
        if isinstance(op, ast.In):
            return a in b
        if isinstance(op, ast.NotIn):
            return a not in b
        if isinstance(op, ast.Is):
            return a is b
        if isinstance(op, ast.IsNot):
            return a is not b
    return None


class _Subst(ast.NodeTransformer):
    def __init__(self, env, atoms):
        self.env = env
        self.atoms = atoms

    def visit_Name(self, n):
        if isinstance(n.ctx, ast.Load) and n.id in self.env:
            import copy

            return copy.deepcopy(self.env[n.id])
        return n

    def visit_IfExp(self, n):
        v = _tv(n.test, self.atoms)
        if v is True:
            return self.visit(n.body)
        if v is False:
            return self.visit(n.orelse)
        return self.generic_visit(n)

    def visit_Subscript(self, n):
        n = self.generic_visit(n)
        # fold `(0 if c else 1)` that was resolved above; nothing else to do
        return n


def _index_triples(fnode, atoms):
    """Enumerate the paths of an accessor under a valuation of the flags; collect the subscripts applied to
    element_tables[tabledata.name]."""
    import copy

    found = set()

    def scan(e):
        for n in ast.walk(e):
            if not isinstance(n, ast.Subscript):
                continue
            slices = []
            b = n
            while isinstance(b, ast.Subscript):
                slices.append(b.slice)
                b = b.value
            slices.reverse()
            if isinstance(b, ast.Attribute) and b.attr == "element_tables" and len(slices) >= 4 and ast.unparse(slices[0]) == "tabledata.name":
                found.add(tuple(ast.unparse(s) for s in slices[1:4]))

    def sub(e, env):
        return ast.fix_missing_locations(_Subst(env, atoms).visit(copy.deepcopy(e)))

    def run(stmts, env, depth=0):
        if depth > 40:
            raise AnalysisError("TABLE-INDEX: path enumeration too deep")
        for i, st in enumerate(stmts):
            if isinstance(st, (ast.Assign, ast.AnnAssign)) and st.value is not None:
                v = sub(st.value, env)
                scan(v)
                tg = st.targets[0] if isinstance(st, ast.Assign) else st.target
                if isinstance(tg, ast.Name):
                    env[tg.id] = v
            elif isinstance(st, ast.If):
                tv = _tv(sub(st.test, env), atoms)
                branches = [st.body] if tv is True else [st.orelse] if tv is False else [st.body, st.orelse]
                results = []
                for b in branches:
                    for out in run(b, dict(env), depth + 1):
                        results += run(stmts[i + 1:], out, depth + 1)
                return results
            elif isinstance(st, ast.Return):
                if st.value is not None:
                    scan(sub(st.value, env))
                return []
            elif isinstance(st, (ast.For, ast.While)):
                outs = run(st.body, dict(env), depth + 1)
                if outs:
                    env = outs[0]
            elif isinstance(st, ast.Expr):
                scan(sub(st.value, env))
            elif isinstance(st, ast.AugAssign):
                scan(sub(st.value, env))
        return [env]

    run(fnode.body, {})
    return found


_ZERO = {"0", "L.LiteralInt(0)", "LiteralInt(0)"}


@rule(
    "TABLE-INDEX",
    ["C02", "C03", "C04", "C08"],
    "Both table accessors (access.table_access, symbols.element_table) are evaluated path by path under every "
    "valuation of (is_uniform, is_piecewise, is_permuted, restriction in {None,'+','-'}). The permutation axis is "
    "indexed with quadrature_permutation[1] for '-' and quadrature_permutation[0] otherwise exactly when the table "
    "is permuted (an unrestricted argument of a facet expression still needs its permutation), else 0; the entity "
    "axis is 0 exactly for uniform tables and the (entity_type, restriction) entity otherwise; the point axis is 0 "
    "exactly for piecewise tables. The reductions in build_optimized_tables collapse the same axes under the same "
    "flags, and the classification predicates compare all slices along their axis over the full other axes",
    min_instances=30,
)
def table_index(repo, res):
    # both accessors are interpreted on sample table records (objects built by their own constructors); the access expression is then
    # evaluated against a table of symbolic entries with concrete entity_local_index / quadrature_permutation and loop variables
    from ..absint import Node as _N, Raised as _Rs, Rat as _Rat
    from ..lnexec import Exec as _Exec, ExecError as _ExecError
    from .genkernel import _world as _gk_world

    am_, sm_ = repo.mod("ffcx.codegeneration.access"), repo.mod("ffcx.codegeneration.symbols")
    sites = [(am_, am_.func("FFCXBackendAccess.table_access")), (sm_, sm_.func("FFCXBackendSymbols.element_table"))]
    ELI, QP = {(0,): 1, (1,): 2}, {(0,): 1, (1,): 0}
    NQ_, ND_ = 3, 2
    for m, f in sites:
        res.functions.add(f.key)
        q = f.qualname
        for uni in (False, True):
            for pw in (False, True):
                for perm in (False, True):
                    for restr in (None, "+", "-"):
                        key = f"{f.key}:index:uniform={uni},piecewise={pw},permuted={perm},restriction={restr}"
                        res.ob(key)
                        for etype in ("facet", "cell", "vertex"):
                            if etype != "facet" and restr is not None:
                                continue
                            it = _gk_world(repo)
                            try:
                                symbols = it.overrides["FFCXBackendSymbols"].fn({}, {}, {})
                                access = it.overrides["FFCXBackendAccess"].fn(etype, "interior_facet" if etype == "facet" else etype, symbols, {})
                                td = _N("UniqueTableReferenceT", name="FE0", is_uniform=uni, is_piecewise=pw, is_permuted=perm, tensor_factors=None, has_tensor_factorisation=False,
                                        ttype="varying", offset=0, block_size=1, values=None, tensor_permutation=None)
                                REAL, INT = "DataType.REAL", "DataType.INT"
                                symbols.f["element_tables"]["FE0"] = it.construct("Symbol", ["FE0", REAL], {})
                                if f.qualname.startswith("FFCXBackendAccess."):
                                    iqx = it.construct("MultiIndex", [[it.construct("Symbol", ["iq", INT], {})], [NQ_]], {})
                                    icx = it.construct("MultiIndex", [[it.construct("Symbol", ["ic", INT], {})], [ND_]], {})
                                    out = it.call_f(f, [access, td, etype, restr, iqx, icx])
                                    expr = out[0] if isinstance(out, tuple) else out
                                else:
                                    expr = it.call_f(f, [symbols, td, etype, restr])
                                    # the caller subscripts the row with the dof index
                                    expr = it.call_method(expr, "__getitem__", it.construct("Symbol", ["ic", INT], {}))
                            except _Rs as e:
                                res.fail(key, f"{q} raises ({e.what}) for a table with these flags ({etype} entity)", m.line(f.node))
                                break
                            P, E, Q = (2 if perm else 1), (1 if uni else 3), (1 if pw else NQ_)
                            ex = _Exec(outputs=(), concrete={"entity_local_index": dict(ELI), "quadrature_permutation": dict(QP)}, extents={"FE0": (P, E, Q, ND_)})
                            ex.loopvars.update({"iq": 2, "ic": 1})
                            side = 1 if restr == "-" else 0
                            want_idx = [QP[(side,)] if perm else 0, 0 if uni else {"facet": ELI[(side,)], "cell": 0, "vertex": ELI[(0,)]}[etype], 0 if pw else 2, 1]
                            try:
                                got = ex.ev(expr)
                            except _ExecError as e:
                                res.fail(key, f"{q}: with entity_local_index = [1, 2], quadrature_permutation = [1, 0], iq = 2, ic = 1 the access to a table stored with shape "
                                         f"{[P, E, Q, ND_]} (permutation axis kept iff permuted, entity axis collapsed iff uniform, point axis collapsed iff piecewise) fails: {e}",
                                         m.line(f.node))
                                break
                            if got != _Rat.var(f"FE0{want_idx}"):
                                res.fail(key, f"{q} ({etype} entity): with entity_local_index = [1, 2], quadrature_permutation = [1, 0], iq = 2, ic = 1 the access reads {got!r}; expected "
                                         f"FE0{want_idx}: the permutation of the restriction's side iff the table is permuted (else 0), the local entity of the restriction's side unless "
                                         "uniform, the quadrature point unless piecewise", m.line(f.node))
                                break
    # predicates and classification: interpreted on sample tables (numpy ndarray model) and compared with the definition
    et = repo.mod(ET)
    from ..absint import Interp as _I, Raised as _R
    from ..lnodes_model import load_classes as _lc
    from ..npmodel import NDArr, install_arrays

    def tbl(fn, P=1, E=2, Q=3, D=2):
        return NDArr([[[[fn(p_, e_, q_, d_) for d_ in range(D)] for q_ in range(Q)] for e_ in range(E)] for p_ in range(P)], (P, E, Q, D))

    base_v = lambda p_, e_, q_, d_: 10 * e_ + 3 * q_ + d_ + 2  # noqa: E731
    samples = {
        "zeros": tbl(lambda *a: 0),
        "empty (no dofs)": tbl(lambda *a: 0, D=0),
        "ones": tbl(lambda *a: 1),
        "identity on every entity": tbl(lambda p_, e_, q_, d_: 1 if q_ == d_ else 0, Q=2, D=2),
        "identity on entity 0 only": tbl(lambda p_, e_, q_, d_: (1 if q_ == d_ else 0) + (5 if e_ == 1 and q_ == 1 and d_ == 0 else 0), Q=2, D=2),
        "identity block of a non-square table": tbl(lambda p_, e_, q_, d_: 1 if q_ == d_ else 0, Q=3, D=2),
        "fixed": tbl(lambda p_, e_, q_, d_: d_ + 2),
        "piecewise": tbl(lambda p_, e_, q_, d_: 10 * e_ + d_ + 2),
        "constant along the points of entity 0 only": tbl(lambda p_, e_, q_, d_: d_ + 2 + (7 * q_ if e_ == 1 else 0)),
        "differs at the last point of the last entity, last dof": tbl(lambda p_, e_, q_, d_: 4 + (1 if (e_, q_, d_) == (1, 2, 1) else 0)),
        "uniform": tbl(lambda p_, e_, q_, d_: 3 * q_ + d_ + 2),
        "equal on all entities at point 0 only": tbl(lambda p_, e_, q_, d_: 3 * q_ + d_ + 2 + (10 * e_ if q_ > 0 else 0)),
        "three entities, the last one differs": tbl(lambda p_, e_, q_, d_: 3 * q_ + d_ + 2 + (1 if e_ == 2 else 0), E=3),
        "varying": tbl(base_v),
        "varying, points reversed in permutation slice 1": tbl(lambda p_, e_, q_, d_: base_v(0, e_, (2 - q_) if p_ else q_, d_), P=2),
        "piecewise with two identical permutation slices": tbl(lambda p_, e_, q_, d_: 10 * e_ + d_ + 2, P=2),
        "three permutation slices, only the last differs": tbl(lambda p_, e_, q_, d_: base_v(0, e_, (2 - q_) if p_ == 2 else q_, d_), P=3),
        "single point": tbl(base_v, Q=1),
        "single entity": tbl(base_v, E=1),
    }

    def spec(t):
        T = t.data
        P, E, Q, D = t.shape
        flat = t.flat()
        zeros = not flat or all(v == 0 for v in flat)
        ones = bool(flat) and all(v == 1 for v in flat)
        quad = Q == D and all(T[0][e_][q_][d_] == (1 if q_ == d_ else 0) for e_ in range(E) for q_ in range(Q) for d_ in range(D))
        pw = all(T[0][e_][q_] == T[0][e_][0] for e_ in range(E) for q_ in range(Q))
        uni = all(T[0][e_] == T[0][0] for e_ in range(E))
        perm = any(T[p_] != T[0] for p_ in range(P))
        ttype = "zeros" if zeros else "ones" if ones else "quadrature" if quad else "fixed" if pw and uni else "piecewise" if pw else "uniform" if uni else "varying"
        return {"is_zeros_table": zeros, "is_ones_table": ones, "is_quadrature_table": quad, "is_piecewise_table": pw, "is_uniform_table": uni,
                "is_permuted_table": perm, "analyse_table_type": ttype}

    why = {"is_piecewise_table": "the point axis is collapsed for piecewise tables, so constancy must hold for every point of every entity",
           "is_uniform_table": "the entity axis is collapsed for uniform tables, so every entity must carry the same values at every point",
           "is_permuted_table": "tables without a differing permutation slice lose the permutation axis",
           "is_zeros_table": "zero tables are dropped from the integrand", "is_ones_table": "ones tables are dropped as factors",
           "is_quadrature_table": "quadrature tables are replaced by the identity", "analyse_table_type": "the class decides which axes are collapsed"}
    for name in ("is_permuted_table", "is_uniform_table", "is_piecewise_table", "is_zeros_table", "is_ones_table", "is_quadrature_table", "analyse_table_type"):
        g = et.func(name)
        res.functions.add(g.key)
        key = f"{g.key}:slices" if name.startswith("is_p") or name == "is_uniform_table" else f"{g.key}:classes" if name == "analyse_table_type" else f"{g.key}:definition"
        res.ob(key)
        for label, t in samples.items():
            if not t.size and name not in ("is_zeros_table", "analyse_table_type"):
                continue  # every other predicate is vacuous on an empty table; the classification tests `zeros` first
            want = spec(t)[name]
            if name == "is_quadrature_table" and t.shape[2] != t.shape[3]:
                want = False
            try:
                got = install_arrays(_I(repo, _lc(repo), primary=ET)).call_f(g, [t])
            except _R as e:
                got = f"raises {e.what}"
            if isinstance(got, str) and name != "analyse_table_type" or (got != want if name == "analyse_table_type" else bool(got) != want):
                res.fail(key, f"{name} on the sample `{label}` {t.shape} gives {got!r}, the definition gives {want!r}: {why[name]}"
                         + (" (e.g. d/dX0 on quadrilateral facets is constant on facet 0 only)" if "only" in label else ""), et.line(g.node))
                break
    # which axes build_optimized_tables collapses for which class: rule GEN-TABLES (function interpreted with a table oracle)
    key = f"{et.name}:ttype-classes"
    res.ob(key)
    consts = {}
    for n in et.tree.body:
        if isinstance(n, ast.Assign) and isinstance(n.targets[0], ast.Name) and n.targets[0].id in ("piecewise_ttypes", "uniform_ttypes"):
            try:
                consts[n.targets[0].id] = set(const_value(n.value))
            except ValueError:
                raise AnalysisError("ttype class tuples are not literal")
    if consts.get("piecewise_ttypes", set()) & {"uniform", "varying"} or "piecewise" not in consts.get("piecewise_ttypes", set()) or "fixed" not in consts.get("piecewise_ttypes", set()):
        res.fail(key, f"piecewise_ttypes = {sorted(consts.get('piecewise_ttypes', []))}", 1)
    if consts.get("uniform_ttypes", set()) & {"piecewise", "varying"} or "uniform" not in consts.get("uniform_ttypes", set()) or "fixed" not in consts.get("uniform_ttypes", set()):
        res.fail(key, f"uniform_ttypes = {sorted(consts.get('uniform_ttypes', []))}", 1)
