"""Reference-geometry tables and their accessors, interpreted together (C02, C04, C01, C19).

GEOM-ACCESS   For every geometry quantity FFCx reads from a static table or from the vertex coordinates (ReferenceNormal,
              CellFacetJacobian, CellRidgeJacobian, ReferenceCellVolume, ReferenceFacetVolume, ReferenceCellEdgeVectors,
              ReferenceFacetEdgeVectors, FacetOrientation, CellVertices, CellEdgeVectors, FacetEdgeVectors) and a set of
              (cell, integral type, restriction, local entity, component) samples:
                - FFCXBackendAccess (built by its own __init__) is asked through `get` - i.e. through its own dispatch table -
                  for the access expression of a modified terminal of that class;
                - generate_geometry_tables of the integral *and* the expression generator are interpreted on an IR whose integrand
                  holds that terminal; geometry.write_table is interpreted with basix replaced by library facts (the reference
                  cells of tabvalues.py) and by tagged stand-in arrays (facet_jacobians[f][i][j] = a number that encodes (f,i,j));
                - the declarations are loaded into the LNodes executor and the access expression is evaluated with a concrete
                  entity_local_index: the value must be the entry the quantity means - *that* facet / ridge (the one of the
                  restriction's side), *that* component; vertex coordinates of the right vertex of the right side.
              An accessor that reads an undeclared table (name mismatch between the generator's map, write_table and the
              accessor), with a symbol of another type than the declaration, through the wrong entity or a flat index without the
              per-entity stride evaluates to something else and is reported.
"""

from __future__ import annotations

from fractions import Fraction as Fr

from ..absint import Node, Raised, Rat, _Cls, _PyCall
from ..lnexec import Exec, ExecError
from ..model import AnalysisError
from ..npmodel import NDArr, install_arrays
from ..registry import rule
from .tabvalues import EDGES, FACES, GEOM, TDIM, sub_entities, topology

IG = "ffcx.codegeneration.integral_generator"
EG = "ffcx.codegeneration.expression_generator"
AM = "ffcx.codegeneration.access"
GM = "ffcx.codegeneration.geometry"


def _tag(base, *idx):
    v = base
    for i in idx:
        v = v * 10 + i
    return (v * 8 + 1) / 8  # a dyadic rational: exact as a float, distinct for distinct (base, idx)


def _nfacets(c):
    return len(sub_entities(c, TDIM[c] - 1))


def _facet_verts(c, f):
    return sub_entities(c, TDIM[c] - 1)[f]


def FJ(c):
    t = TDIM[c]
    return [[[_tag(1, f, i, j) for j in range(t - 1)] for i in range(t)] for f in range(_nfacets(c))]


def EJ(c):
    t = TDIM[c]
    return [[[_tag(2, e, i, 0)] for i in range(t)] for e in range(len(EDGES[c]))]


def NORMALS(c):
    return [[_tag(3, f, i) for i in range(TDIM[c])] for f in range(_nfacets(c))]


def ORI(c):
    return [_tag(4, f) for f in range(_nfacets(c))]


def VOL(c):
    return _tag(5, TDIM[c])


def FVOL(c):
    # facets of one shape have one reference volume; the triangular and quadrilateral facets of a prism / pyramid differ
    return [_tag(6, TDIM[c], len(_facet_verts(c, f))) for f in range(_nfacets(c))]


def _coord(restr, nverts, v, i):
    """the kernel argument coordinate_dofs[...] of vertex v, component i, on the side of the restriction"""
    return Rat.var(f"coordinate_dofs[{[3 * v + i + (3 * nverts if restr == '-' else 0)]}]".replace("[[", "[").replace("]]", "]"))


def _install_basix(it):
    class _CT:
        def __init__(self):
            pass

    it.overrides["basix.CellType"] = Node("CellTypeEnum", **{c: c for c in GEOM})
    it.overrides["basix.geometry"] = _PyCall(lambda c: NDArr([[Fr(v) for v in p] for p in GEOM[c]]))
    it.overrides["basix.topology"] = _PyCall(lambda c: topology(c))
    it.overrides["basix.cell.facet_jacobians"] = _PyCall(lambda c: NDArr(FJ(c)))
    it.overrides["basix.cell.edge_jacobians"] = _PyCall(lambda c: NDArr(EJ(c)))
    it.overrides["basix.cell.facet_outward_normals"] = _PyCall(lambda c: NDArr(NORMALS(c)))
    it.overrides["basix.cell.facet_orientations"] = _PyCall(lambda c: list(ORI(c)))
    it.overrides["basix.cell.volume"] = _PyCall(lambda c: VOL(c))
    it.overrides["basix.cell.facet_reference_volumes"] = _PyCall(lambda c: NDArr(FVOL(c)))
    it.overrides["np.isclose"] = _PyCall(lambda a, b, **k: a == b)
    it.overrides["basix.ufl._BlockedElement"] = _Cls("_BlockedElement")


# (class, cells, [(integral type, entity type, restriction)], components(cell) -> list, spec(cell, restr, ent, comp) -> Rat | Fr)
def _spec_table():
    ext, intp, intm, cell = ("exterior_facet", "facet", None), ("interior_facet", "facet", "+"), ("interior_facet", "facet", "-"), ("cell", "cell", None)
    ridge = ("ridge", "ridge", None)

    def facet_edge_vec(c, f, e):
        fv = _facet_verts(c, f)
        a, b = (EDGES["triangle"] if len(fv) == 3 else EDGES["quadrilateral"])[e]
        return fv[a], fv[b]

    return [
        ("ReferenceCellVolume", ("triangle", "hexahedron"), [cell, ext], lambda c: [()], lambda c, r, ent, comp: VOL(c)),
        ("ReferenceFacetVolume", ("triangle", "tetrahedron", "hexahedron"), [ext, intm], lambda c: [()], lambda c, r, ent, comp: FVOL(c)[0]),
        # cells whose facets differ in shape: rejected today (a Python exception from the accessor or the table writer is a valid answer);
        # if accepted, the value must be the volume of the current facet
        ("ReferenceFacetVolume", ("prism",), [ext], lambda c: [()], lambda c, r, ent, comp: FVOL(c)[ent], "may-reject"),
        ("ReferenceNormal", ("triangle", "tetrahedron", "hexahedron"), [ext, intp, intm], lambda c: [(0,), (TDIM[c] - 1,)], lambda c, r, ent, comp: NORMALS(c)[ent][comp[0]]),
        ("CellFacetJacobian", ("triangle", "tetrahedron", "prism"), [ext, intp, intm], lambda c: [(0, 0), (TDIM[c] - 1, TDIM[c] - 2)],
         lambda c, r, ent, comp: FJ(c)[ent][comp[0]][comp[1]]),
        ("CellRidgeJacobian", ("tetrahedron", "hexahedron"), [ridge], lambda c: [(0, 0), (2, 0)], lambda c, r, ent, comp: EJ(c)[ent][comp[0]][comp[1]]),
        ("ReferenceCellEdgeVectors", ("triangle", "tetrahedron", "hexahedron"), [cell, ext], lambda c: [(0, 0), (len(EDGES[c]) - 1, TDIM[c] - 1), (1, 1)],
         lambda c, r, ent, comp: Fr(GEOM[c][EDGES[c][comp[0]][1]][comp[1]] - GEOM[c][EDGES[c][comp[0]][0]][comp[1]])),
        ("ReferenceFacetEdgeVectors", ("tetrahedron", "hexahedron"), [ext, intm], lambda c: [(0, 0), (2, 2), (1, 0), (len(_facet_verts(c, 0)) - 1, 1)],
         lambda c, r, ent, comp: Fr(GEOM[c][facet_edge_vec(c, ent, comp[0])[1]][comp[1]] - GEOM[c][facet_edge_vec(c, ent, comp[0])[0]][comp[1]])),
        ("FacetOrientation", ("triangle", "tetrahedron"), [ext, intp, intm], lambda c: [()], lambda c, r, ent, comp: ORI(c)[ent]),
        ("CellVertices", ("triangle", "tetrahedron"), [cell, intp, intm], lambda c: [(0, 0), (len(GEOM[c]) - 1, TDIM[c] - 1), (1, 0)],
         lambda c, r, ent, comp: _coord(r, len(GEOM[c]), comp[0], comp[1])),
        ("CellEdgeVectors", ("triangle", "tetrahedron"), [cell, intm], lambda c: [(0, 0), (len(EDGES[c]) - 1, TDIM[c] - 1)],
         lambda c, r, ent, comp: ("±", _coord(r, len(GEOM[c]), EDGES[c][comp[0]][1], comp[1]) - _coord(r, len(GEOM[c]), EDGES[c][comp[0]][0], comp[1]))),
        ("FacetEdgeVectors", ("tetrahedron", "hexahedron"), [ext, intm], lambda c: [(0, 0), (2, 2), (1, 1)],
         lambda c, r, ent, comp: ("±", _coord(r, len(GEOM[c]), facet_edge_vec(c, ent, comp[0])[1], comp[1]) - _coord(r, len(GEOM[c]), facet_edge_vec(c, ent, comp[0])[0], comp[1]))),
    ]


BASES = {"GeometricFacetQuantity": ("GeometricQuantity", "Terminal"), "GeometricCellQuantity": ("GeometricQuantity", "Terminal")}
FACET_Q = {"ReferenceNormal", "CellFacetJacobian", "ReferenceFacetVolume", "ReferenceFacetEdgeVectors", "FacetOrientation", "FacetEdgeVectors"}


@rule(
    "GEOM-ACCESS",
    ["C02", "C04", "C01", "C19", "C17", "C03", "C08"],
    "for each reference-geometry / vertex-coordinate quantity and samples of (cell, integral type, restriction, local entity, component): "
    "FFCXBackendAccess.get (dispatch table included) gives the access expression; generate_geometry_tables of both generators with "
    "geometry.write_table interpreted over basix library facts and tagged stand-in arrays gives the declarations; executed together with "
    "a concrete entity_local_index the access evaluates to the entry the quantity means - that facet/ridge of the restriction's side, "
    "that component - read from a declared table through a symbol of the declared type",
    min_instances=60,
)
def geom_access(repo, res):
    from .genkernel import _world

    am = repo.mod(AM)
    get = am.func("FFCXBackendAccess.get")
    res.functions.add(get.key)
    res.functions.add(repo.mod(GM).func("write_table").key)
    gens = [(IG, "IntegralGenerator"), (EG, "ExpressionGenerator")]
    for modname, cls in gens:
        res.functions.add(repo.mod(modname).func(f"{cls}.generate_geometry_tables").key)

    def world():
        it = install_arrays(_world(repo))
        _install_basix(it)
        it.obj_classes["ExpressionGenerator"] = EG
        for q in FACET_Q:
            it.extra_bases[q] = ("GeometricFacetQuantity", "GeometricQuantity", "Terminal")
        for q in ("ReferenceCellVolume", "CellRidgeJacobian", "ReferenceCellEdgeVectors", "CellVertices", "CellEdgeVectors"):
            it.extra_bases[q] = ("GeometricCellQuantity", "GeometricQuantity", "Terminal")
        for nm in ("GeometricFacetQuantity", "GeometricCellQuantity", "GeometricQuantity"):
            it.overrides[f"ufl.geometry.{nm}"] = _Cls(nm)
        return it

    for entry in _spec_table():
        qcls, cells, itypes, comps_of, spec = entry[:5]
        may_reject = len(entry) > 5
        for c in cells:
            nverts = len(GEOM[c])
            scalar = Node("Element", reference_value_size=1, block_size=1, dim=nverts, entity_dofs=[[[v] for v in range(nverts)]] + [[[] for _ in d] for d in topology(c)[1:]],
                          reference_topology=topology(c))
            cel = Node("_BlockedElement", reference_value_shape=(3,), sub_elements=[scalar], embedded_superdegree=1, dim=3 * nverts, block_size=3, reference_value_size=3)
            mesh = Node("Mesh", ufl_cell=_PyCall(lambda _c=c: Node("Cell", cellname=_c)), geometric_dimension=3, ufl_coordinate_element=_PyCall(lambda _e=cel: _e),
                        ufl_id=_PyCall(lambda: 777))
            nf = _nfacets(c)
            nr = len(EDGES[c])
            for itype, etype, restr in itypes:
                nent = {"facet": nf, "ridge": nr, "cell": 1}[etype]
                ents = [{(0,): min(1, nent - 1), (1,): nent - 1}, {(0,): nent - 1, (1,): 0}] if etype != "cell" else [{(0,): 0, (1,): 0}]
                for comp in comps_of(c):
                    key = f"{get.key}:{qcls}:{c}:{itype}:{restr or 'unrestricted'}:{comp}"
                    res.ob(key)
                    loc = am.line(get.node)
                    it = world()
                    it.overrides["ufl.domain.extract_unique_domain"] = _PyCall(lambda t, _m=mesh: _m)
                    term = Node(qcls, name=qcls, ufl_shape=tuple(3 for _ in comp))
                    mt = Node("ModifiedTerminal", terminal=term, restriction=restr, component=tuple(comp), flat_component=0, averaged=None, local_derivatives=(),
                              global_derivatives=(), reference_value=False, base_form_op=None)
                    try:
                        symbols = it.overrides["FFCXBackendSymbols"].fn({}, {}, {})
                        if qcls in ("CellVertices", "CellEdgeVectors", "FacetEdgeVectors") and comp == comps_of(c)[-1] and isinstance(symbols.f.get("domain_numbers"), dict):
                            # another mesh of the kernel was numbered first (its Jacobian was used before): the caller still passes the coordinates
                            # of the integration domain only, so the vertex coordinates stay where they were
                            symbols.f["domain_numbers"][424242] = 0
                        access = it.overrides["FFCXBackendAccess"].fn(etype, itype, symbols, {"scalar_type": "float64"})
                        rule_ = Node("QuadratureRule", id=_PyCall(lambda: "r0"))
                        expr = it.call_f(get, [access, mt, None, rule_])
                    except Raised as e:
                        if not may_reject:
                            res.fail(key, f"FFCXBackendAccess.get raises ({e.what}) for {qcls} on a {c} in a {itype} integral", loc)
                        continue
                    ok = True
                    for modname, cls in gens:
                        if cls == "ExpressionGenerator" and etype == "cell" and qcls in FACET_Q:
                            continue
                        if cls == "ExpressionGenerator" and etype == "ridge":
                            continue
                        g = repo.mod(modname).func(f"{cls}.generate_geometry_tables")
                        graph = Node("ExpressionGraph", nodes={0: {"expression": None, "mt": mt, "status": "piecewise"}, 1: {"expression": None, "status": "varying"}})
                        ct = f"CellType.{c}"
                        gen = Node(cls, ir=Node("IR", expression=Node("CommonExpressionIR", integrand={(ct, rule_): {"factorization": graph}}, entity_type=etype, integral_type=itype)),
                                   quadrature_rule=(ct, rule_))
                        byname = {"self": gen, "domain": ct}
                        if not set(g.params) <= set(byname):
                            raise AnalysisError(f"{g.key}: parameters {g.params} not understood")
                        try:
                            parts = it.call_f(g, [byname[p_] for p_ in g.params])
                        except Raised as e:
                            if not may_reject:
                                res.fail(key, f"{cls}.generate_geometry_tables raises ({e.what}) for a kernel that uses {qcls} on a {c}, although the accessor accepts it", loc)
                            ok = False
                            continue
                        declared = {}
                        for p_ in parts if isinstance(parts, list) else []:
                            if isinstance(p_, Node) and p_.cls in ("ArrayDecl", "VariableDecl"):
                                declared[p_.f["symbol"].f["name"]] = p_.f["symbol"].f.get("dtype")
                        # symbols of static tables the access expression reads
                        used = {}

                        def walk(n):
                            if isinstance(n, Node):
                                if n.cls == "Symbol":
                                    used.setdefault(n.f["name"], n.f.get("dtype"))
                                for v in n.f.values():
                                    walk(v)
                            elif isinstance(n, (list, tuple)):
                                for v in n:
                                    walk(v)
                        walk(expr)
                        for nm, dt in used.items():
                            if nm in ("coordinate_dofs", "entity_local_index", "quadrature_permutation"):
                                continue
                            if nm not in declared:
                                res.fail(key, f"{qcls} on a {c}: the accessor reads `{nm}`, which {cls}.generate_geometry_tables does not declare for a kernel using that "
                                         f"quantity (declared: {sorted(declared)}): undeclared identifier in the generated C", loc, props=("C19", "C04" if cls == "ExpressionGenerator" else "C02"))
                                ok = False
                            elif declared[nm] != dt:
                                res.fail(key, f"{qcls} on a {c}: table `{nm}` is declared {declared[nm]} but read through a {dt}-typed symbol: every intermediate computed "
                                         f"from it takes the type of the access", loc, props=("C19", "C01", "C02", "C17"))
                                ok = False
                        if not ok:
                            continue
                        for ent in ents:
                            e_idx = ent[(1,)] if (restr == "-" and etype == "facet") else ent[(0,)]
                            ex = Exec(outputs=(), concrete={"entity_local_index": dict(ent)}, extents={"coordinate_dofs": (3 * nverts * (2 if itype == "interior_facet" else 1),)})
                            try:
                                ex.run(parts)
                                got = ex.ev(expr)
                            except ExecError as e:
                                res.fail(key, f"{qcls}{list(comp)} on a {c}, {itype}, restriction {restr}, local entity {e_idx}: evaluating the access against the declared "
                                         f"tables fails: {e}", loc)
                                ok = False
                                break
                            want = spec(c, restr, e_idx, comp)
                            either = isinstance(want, tuple)
                            w = want[1] if either else want
                            w = w if isinstance(w, Rat) else Rat.const(Fr(w))
                            if not (got == w or (either and got == -w)):
                                res.fail(key, f"{qcls}{list(comp)} on a {c} in a {itype} integral (restriction {restr}, entity_local_index = {[ent[(0,)], ent[(1,)]]}): the access "
                                         f"evaluates to {got!r} against the tables {cls} declares, expected {w!r} - the entry of local {etype} {e_idx}, component {list(comp)}",
                                         loc)
                                ok = False
                                break
                        if not ok:
                            break
