"""C13 (and the naming part of C19): JIT signatures and generated object names.

SIG-COMPLETE   every input that can change the generated module flows into the hashed string
SIG-INJECTIVE  each component is rendered injectively (no lossy repr of arrays, no truncation)
NAME-KEY       names computed inside a loop over entities are a function of an injective key
DIGEST-WIDTH   a truncated digest used as a name component keeps enough bits
"""

from __future__ import annotations

import ast
import re

from ..flow import Slicer
from ..model import AnalysisError, call_name, calls_in, dotted, kwarg, walk_no_nested
from ..registry import rule

NAMING = "ffcx.naming"
JIT = "ffcx.codegeneration.jit"


def _hash_calls(fnode):
    """hashlib calls whose digest is the function's result (inner helper digests are components)."""
    allc = [c for c in calls_in(fnode) if (call_name(c) or "").startswith("hashlib.")]
    final = []
    for r in [n for n in walk_no_nested(fnode) if isinstance(n, ast.Return) and n.value is not None]:
        for c in allc:
            if any(x is c for x in ast.walk(r.value)):
                final.append(c)
    return final or allc


def _mutations_text(fnode, var: str) -> str:
    """Text of everything stored into / appended to a local container variable."""
    out = []
    for n in walk_no_nested(fnode):
        if isinstance(n, ast.Call) and isinstance(n.func, ast.Attribute) and isinstance(n.func.value, ast.Name) and n.func.value.id == var:
            out.append(ast.unparse(n))
        if isinstance(n, ast.Assign):
            for t in n.targets:
                if isinstance(t, ast.Subscript) and isinstance(t.value, ast.Name) and t.value.id == var:
                    out.append(ast.unparse(n))
        if isinstance(n, ast.AugAssign) and isinstance(n.target, ast.Name) and n.target.id == var:
            out.append(ast.unparse(n))
    return " ;; ".join(out)


def _full_slice_text(fnode, expr, depth=8) -> str:
    """Backward slice text including in-place growth (`x += ...`, `x.update(...)`, `x.append(...)`)."""
    sl = Slicer(fnode)
    seen_vars = set()
    texts = []
    todo = [expr]
    while todo:
        e = todo.pop()
        for x in sl.expand(e, depth):
            texts.append(ast.unparse(x))
            for n in ast.walk(x):
                if isinstance(n, ast.Name) and n.id not in seen_vars:
                    seen_vars.add(n.id)
                    mt = _mutations_text(fnode, n.id)
                    if mt:
                        texts.append(mt)
                        for stmt in walk_no_nested(fnode):
                            if isinstance(stmt, ast.Call) and isinstance(stmt.func, ast.Attribute) and isinstance(stmt.func.value, ast.Name) \
                                    and stmt.func.value.id == n.id:
                                todo.extend(stmt.args)
                            if isinstance(stmt, ast.AugAssign) and isinstance(stmt.target, ast.Name) and stmt.target.id == n.id:
                                todo.append(stmt.value)
    return " ;; ".join(texts)


@rule(
    "SIG-COMPLETE",
    ["C13", "C10", "C04"],
    "the string hashed by naming.compute_signature slices back to: each form's UFL signature / each "
    "expression's renumbered signature (renumbering built from coefficients, constants, arguments and "
    "domains) and its evaluation points, ffcx.__version__, the ufcx.h hash, the kind and the caller's "
    "tag; at both jit call sites the tag slices back to ALL merged options, the extra compile args, "
    "the debug flag and the interpreter ABI / CFLAGS",
    min_instances=14,
)
def sig_complete(repo, res):
    """C13 for every finding; additionally C10 when an option escapes the module name (a later request with other option values
    is served the cached module), C04 when the evaluation points do."""
    _sig_complete(repo, res)
    for f_ in res.findings:
        extra = (("C10",) if "option" in f_.msg.lower() else ()) + (("C04",) if "points" in f_.msg.lower() or ":points" in f_.key else ())
        f_.props = ("C13",) + extra


def _sig_complete(repo, res):
    m = repo.mod(NAMING)
    cs = m.func("compute_signature")
    res.functions.add(cs.key)
    hs = _hash_calls(cs.node)
    if len(hs) != 1:
        raise AnalysisError(f"compute_signature: expected one hashlib call, found {len(hs)}")
    h = hs[0]
    if not h.args:
        raise AnalysisError("compute_signature: hashlib call without data")
    text = _full_slice_text(cs.node, h.args[0])
    need = {
        "form-signature": r"\.signature\(\)",
        "expression-signature": r"compute_expression_signature\(",
        "points": r"\bpoints\b",
        "ffcx-version": r"__version__",
        "ufcx-header-hash": r"get_signature\(\)",
        "kind": r"\bkind\b",
        "tag": r"\btag\b",
    }
    for name, pat in need.items():
        key = f"{cs.key}:hashed:{name}"
        res.ob(key)
        if not re.search(pat, text):
            res.fail(key, f"the hashed string of compute_signature no longer depends on {name}: requests that differ "
                     f"only in it share a module name", m.line(h))
    # digest not truncated
    key = f"{cs.key}:full-digest"
    res.ob(key)
    for r in [n for n in walk_no_nested(cs.node) if isinstance(n, ast.Return)]:
        if r.value is not None and isinstance(r.value, ast.Subscript) and "hexdigest" in ast.unparse(r.value):
            res.fail(key, "the signature digest is truncated", m.line(r))
    # kinds are distinct strings per branch
    key = f"{cs.key}:kind-values"
    res.ob(key)
    kinds = [ast.literal_eval(n.value) for n in walk_no_nested(cs.node) if isinstance(n, ast.Assign)
             and any(isinstance(t, ast.Name) and t.id == "kind" for t in n.targets) and isinstance(n.value, ast.Constant)]
    if len(kinds) < 2 or len(set(kinds)) != len(kinds):
        res.fail(key, f"form and expression requests are tagged with kinds {kinds}: not distinct", m.line(cs.node))
    # renumbering map
    ecs = [c for c in calls_in(cs.node) if (call_name(c) or "").endswith("compute_expression_signature")]
    if len(ecs) != 1 or len(ecs[0].args) < 2:
        raise AnalysisError("compute_signature: compute_expression_signature(expr, renumbering) call not found")
    rn = ecs[0].args[1]
    rtext = _full_slice_text(cs.node, rn)
    for what, pat in (("coefficients", r"extract_coefficients"), ("constants", r"extract_constants"),
                      ("arguments", r"extract_arguments"), ("domains", r"domain")):
        key = f"{cs.key}:renumbering:{what}"
        res.ob(key)
        if not re.search(pat, rtext):
            res.fail(key, f"the renumbering passed to compute_expression_signature does not cover {what}: the "
                     "expression signature depends on global object counters (differs between processes)", m.line(ecs[0]))
    # jit call sites
    j = repo.mod(JIT)
    for fname in ("compile_forms", "compile_expressions"):
        f = j.func(fname)
        res.functions.add(f.key)
        # every parameter that changes the produced binary is an argument of _compilation_signature
        key = f"{f.key}:binary-affecting-parameters-in-signature"
        res.ob(key)
        csc = [c for c in calls_in(f.node) if (call_name(c) or "") == "_compilation_signature"]
        passed = {n.id for c in csc for a in list(c.args) + [k.value for k in c.keywords] for n in ast.walk(a) if isinstance(n, ast.Name)}
        affecting = [p for p in f.params if p in ("cffi_extra_compile_args", "cffi_debug", "cffi_libraries")]
        missing = [p for p in affecting if p not in passed]
        if missing:
            res.fail(key, f"{fname}: {missing} change the compiled module but are not part of its signature: two requests differing only in them share one cached binary",
                     j.line(f.node))
        calls = [c for c in calls_in(f.node) if (call_name(c) or "").endswith("compute_signature")]
        if len(calls) != 1 or len(calls[0].args) < 2:
            raise AnalysisError(f"{fname}: compute_signature(objects, tag) call not found")
        c = calls[0]
        sl = Slicer(f.node)
        ttext = sl.text(c.args[1])
        for what, pat in (("options", r"_compute_option_signature\((\w+)\)"), ("compile-args", r"_compilation_signature\(\s*cffi_extra_compile_args\s*,\s*cffi_debug\s*(,\s*(cffi_libraries=)?cffi_libraries\s*)?\)")):
            key = f"{f.key}:tag:{what}"
            res.ob(key)
            mm = re.search(pat, ttext)
            if not mm:
                res.fail(key, f"module name of {fname} does not depend on {what}", j.line(c))
            elif what == "options":
                # the argument must be the merged option dict returned by get_options, the one later used to generate
                var = mm.group(1)
                vt = sl.text(ast.Name(id=var, ctx=ast.Load()))
                if "get_options(" not in vt:
                    res.fail(key, f"option signature is computed from `{var}`, not from the merged options actually used", j.line(c))
                # same dict goes to _compile_objects
                co = [x for x in calls_in(f.node) if (call_name(x) or "").endswith("_compile_objects")]
                if co and var not in {n.id for a in co[0].args for n in ast.walk(a) if isinstance(n, ast.Name)}:
                    res.fail(key, f"the options hashed (`{var}`) are not the options passed to the build", j.line(co[0]))
        key = f"{f.key}:objects-hashed"
        res.ob(key)
        a0 = ast.unparse(c.args[0])
        want = "forms" if fname == "compile_forms" else "expressions"
        if a0 != want:
            res.fail(key, f"signature computed over `{a0}` instead of the `{want}` that are compiled", j.line(c))
        # name prefix separates forms from expressions modules
        key = f"{f.key}:module-prefix"
        res.ob(key)
    prefixes = []
    for fname in ("compile_forms", "compile_expressions"):
        f = j.func(fname)
        for n in walk_no_nested(f.node):
            if isinstance(n, ast.Assign) and any(isinstance(t, ast.Name) and t.id == "module_name" for t in n.targets):
                consts = [x.value for x in ast.walk(n.value) if isinstance(x, ast.Constant) and isinstance(x.value, str)]
                prefixes.append(consts[0] if consts else None)
    key = f"{JIT}:module-prefixes-distinct"
    res.ob(key)
    if len(prefixes) != 2 or None in prefixes or prefixes[0] == prefixes[1]:
        res.fail(key, f"module name prefixes {prefixes} do not separate form and expression modules", "ffcx/codegeneration/jit.py")
    # option signature covers all items; compilation signature covers args + ABI
    osig = j.func("_compute_option_signature")
    key = f"{osig.key}:all-items"
    res.ob(key)
    rets = [n for n in walk_no_nested(osig.node) if isinstance(n, ast.Return)]
    rt = " ".join(ast.unparse(r.value) for r in rets if r.value is not None)
    p = osig.params[0] if osig.params else "options"
    osl = Slicer(osig.node)
    mm = re.search(r"sorted\(\s*(\w+)\.items\(\)\s*\)", rt)
    if not mm:
        res.fail(key, f"_compute_option_signature returns `{rt}`: not every option (key and value, in a canonical order) "
                 "enters the module name", j.line(osig.node))
    else:
        var = mm.group(1)
        if var != p and p not in osl.names(ast.Name(id=var, ctx=ast.Load())):
            res.fail(key, f"the hashed dict `{var}` does not derive from the options parameter", j.line(osig.node))
        # the hashed dict must not be rewritten before hashing (dropped keys, normalised values): over-approximation,
        # any in-place change of the hashed dict is reported
        hashed_vars = {var} | ({p} if var != p else set())
        for n in walk_no_nested(osig.node):
            changed = None
            if isinstance(n, (ast.Assign, ast.AugAssign)):
                for t in (n.targets if isinstance(n, ast.Assign) else [n.target]):
                    if isinstance(t, ast.Subscript) and isinstance(t.value, ast.Name) and t.value.id in hashed_vars:
                        changed = ast.unparse(n)
            if isinstance(n, ast.Call) and isinstance(n.func, ast.Attribute) and n.func.attr in ("pop", "update", "popitem", "clear", "setdefault") \
                    and isinstance(n.func.value, ast.Name) and n.func.value.id in hashed_vars:
                changed = ast.unparse(n)
            if isinstance(n, ast.Delete):
                changed = ast.unparse(n)
            if changed:
                res.fail(key, f"options are rewritten before hashing (`{changed[:70]}`): requests differing only in the "
                         "rewritten option can share a module name", j.line(n))
        if isinstance(osl.defs.get(var, [None])[0], (ast.DictComp,)) :
            res.fail(key, "options are filtered through a comprehension before hashing", j.line(osig.node))
    csig = j.func("_compilation_signature")
    for r in [n for n in walk_no_nested(csig.node) if isinstance(n, ast.Return)]:
        key = f"{csig.key}:return:{r.lineno and 'branch'}:{len(res.instances)}"
        res.ob(key)
        t = ast.unparse(r.value) if r.value is not None else ""
        csl = Slicer(csig.node)
        full = (csl.text(r.value) if r.value is not None else "") + " " + t
        miss = [w for w in list(csig.params) + ["get_config_var"] if w not in full]
        if miss:
            res.fail(f"{csig.key}:return", f"_compilation_signature branch returns `{t[:80]}` without {miss}", j.line(r))
        lossy = re.search(r"\b(set|frozenset|sorted|fromkeys|unique)\([^()]*(?:\([^()]*\))?[^()]*cffi_extra_compile_args", full)
        if lossy:
            res.fail(f"{csig.key}:return", f"the compiler flags enter the signature through `{lossy.group(1)}(...)`, which forgets their order / repetition: compilers honour "
                     "flag order (the last -O, -D/-U wins), so ['-O0','-O2'] and ['-O2','-O0'] would share a module name and the second request loads the first one's binary",
                     j.line(r))
        if "win32" not in ast.unparse(csig.node) or ("SOABI" not in t and "EXT_SUFFIX" not in t):
            res.fail(f"{csig.key}:abi", "compilation signature lacks the interpreter ABI tag (SOABI / EXT_SUFFIX)", j.line(r))


LOSSY_RENDERERS = {"repr", "str", "format", "ascii"}
INJECTIVE_ARRAY = ("tobytes", "tolist", "tostring", "dumps", "hexdigest", "digest")


@rule(
    "SIG-INJECTIVE",
    ["C13", "C04"],
    "no component of the hashed signature is rendered through a lossy conversion: repr/str/f-string of "
    "a NumPy array (8 significant digits, elision beyond 1000 elements) or a %g-style format",
    min_instances=1,
)
def sig_injective(repo, res):
    """compute_signature interpreted on expression objects whose point arrays differ only where a lossy rendering cannot see it."""
    from ..absint import Interp, Node, PyNative, Raised, _PyCall
    from ..lnodes_model import load_classes
    from ..npmodel import NDArr, install_arrays

    m = repo.mod(NAMING)
    cs = m.func("compute_signature")
    res.functions.add(cs.key)

    class _Sha(PyNative):
        """A perfect hash: the digest is the content, so two digests agree iff everything that was hashed agrees."""

        def __init__(self, data=b""):
            self.data = bytes(data)

        def update(self, more):
            self.data += bytes(more)

        def hexdigest(self):
            return "H<" + self.data.hex() + ">"

    expr = Node("Expr", name="e")

    def sig(points, tag="t"):
        it = install_arrays(Interp(repo, load_classes(repo), primary=NAMING))
        for nm in ("sha1", "sha256", "md5", "sha512"):
            it.overrides[f"hashlib.{nm}"] = _PyCall(lambda d=b"", **k: _Sha(d))
        for pre in ("ufl.algorithms.", "ufl.algorithms.analysis."):
            for fn_ in ("extract_coefficients", "extract_constants", "extract_arguments"):
                it.overrides[pre + fn_] = _PyCall(lambda e_: [])
        it.overrides["ufl.algorithms.analysis.unique_tuple"] = _PyCall(lambda d: tuple(d))
        it.overrides["ufl.domain.extract_domains"] = _PyCall(lambda e_: [])
        it.overrides["ufl.corealg.traversal.unique_pre_traversal"] = _PyCall(lambda e_: [])
        it.overrides["ufl.algorithms.signature.compute_expression_signature"] = _PyCall(lambda e_, rn: "EXPRSIG")
        it.overrides["ffcx.__version__"] = "0.0"
        it.overrides["ffcx.codegeneration.get_signature"] = _PyCall(lambda: "HDR")
        return it.call_f(cs, [[(expr, points)], tag])

    def arr(shape, fn):
        if len(shape) == 2:
            return NDArr([[fn(i, j) for j in range(shape[1])] for i in range(shape[0])], shape)
        return NDArr([fn(i, 0) for i in range(shape[0])], shape)

    pairs = {
        "points differing in the 11th significant digit": (arr((1, 2), lambda i, j: 0.25), arr((1, 2), lambda i, j: 0.25 + (1e-10 if j else 0))),
        "same coordinates, shapes (2,3) and (3,2)": (arr((2, 3), lambda i, j: (3 * i + j) / 8), arr((3, 2), lambda i, j: (2 * i + j) / 8)),
        "1200 points differing in the middle": (arr((1200, 1), lambda i, j: i / 2048), arr((1200, 1), lambda i, j: (i + (1 if i == 600 else 0) / 2) / 2048)),
        "different point sets of equal shape": (arr((2, 2), lambda i, j: 0.125 * (i + j)), arr((2, 2), lambda i, j: 0.125 * (i + 2 * j))),
    }
    for label, (p1, p2) in pairs.items():
        key = f"{cs.key}:exact-encoding:{label}"
        res.ob(key)
        try:
            s1, s2, s1b = sig(p1), sig(p2), sig(p1.copy())
        except Raised as e:
            res.fail(key, f"compute_signature raises ({e.what}) on an expression with {label}", m.line(cs.node))
            continue
        if s1 == s2:
            res.fail(key, f"two expressions with {label} get the same signature: the evaluation points enter it through a lossy rendering (NumPy prints 8 significant "
                     "digits and elides arrays over 1000 elements; raw bytes without the shape make (2,3) and (3,2) collide), so different point sets share a name "
                     "and a cached module", m.line(cs.node))
        if s1 != s1b:
            res.fail(key, "the same expression and points give two different signatures", m.line(cs.node))
    key = f"{cs.key}:tag"
    res.ob(key)
    p0 = pairs["different point sets of equal shape"][0]
    try:
        if sig(p0, "a") == sig(p0, "b"):
            res.fail(key, "the tag does not enter the signature: objects distinguished only by their tag (form id, prefix, integral type) share a name", m.line(cs.node))
    except Raised as e:
        res.fail(key, f"compute_signature raises ({e.what})", m.line(cs.node))


@rule(
    "NAME-KEY",
    ["C13", "C19"],
    "a generated object name computed inside a loop over entities is a function of the loop index or of "
    "every component of the entity's identity; UFL groups integrals by (domain, type, subdomain ids), so "
    "the integral name must depend on the group index or on the domain as well",
    min_instances=3,
)
def name_key(repo, res):
    rep = repo.mod("ffcx.ir.representation")
    f = rep.func("compute_ir")
    res.functions.add(f.key)
    found = 0
    for loop in [n for n in walk_no_nested(f.node) if isinstance(n, ast.For)]:
        it = ast.unparse(loop.iter)
        idx = None
        if isinstance(loop.iter, ast.Call) and call_name(loop.iter) == "enumerate" and isinstance(loop.target, ast.Tuple):
            idx = loop.target.elts[0].id if isinstance(loop.target.elts[0], ast.Name) else None
        for c in calls_in(loop):
            nm = (call_name(c) or "").split(".")[-1]
            if nm not in ("integral_name", "form_name", "expression_name"):
                continue
            # innermost loop containing the call
            inner = [l for l in ast.walk(loop) if isinstance(l, ast.For) and l is not loop and any(x is c for x in ast.walk(l))]
            if inner:
                continue
            found += 1
            key = f"{f.key}:{nm}:key"
            res.ob(key)
            argnames = {n.id for a in list(c.args) + [k.value for k in c.keywords] for n in ast.walk(a) if isinstance(n, ast.Name)}
            argtext = " ".join(ast.unparse(a) for a in list(c.args) + [k.value for k in c.keywords])
            if idx is None:
                res.fail(key, f"{nm}() is called in a loop without an index (`for {ast.unparse(loop.target)} in {it}`)", rep.line(c))
                continue
            if idx in argnames:
                continue
            if nm == "integral_name" and ".domain" in argtext and "integral_type" in argtext and "subdomain_id" in argtext:
                continue
            res.fail(key, f"{nm}(...) in the loop over `{it}` depends neither on the loop index `{idx}` nor on the full "
                     "identity of the entity: two integral groups with equal type and subdomain id on different "
                     "meshes (f1*dx(mesh1) + f2*dx(mesh2)) get the same C name", rep.line(c))
    if found < 2:
        raise AnalysisError("NAME-KEY: naming calls in compute_ir loops not found")
    # the callee hashes every argument it is given
    nm_mod = repo.mod(NAMING)
    for fn in ("integral_name", "form_name", "expression_name"):
        g = nm_mod.func(fn)
        res.functions.add(g.key)
        key = f"{g.key}:uses-all-params"
        res.ob(key)
        cs_calls = [c for c in calls_in(g.node) if (call_name(c) or "").endswith("compute_signature")]
        if len(cs_calls) != 1:
            raise AnalysisError(f"{fn}: compute_signature call not found")
        gsl = Slicer(g.node)
        used = set()
        for a in cs_calls[0].args:
            used |= set(gsl.names(a)) | {n.id for n in ast.walk(a) if isinstance(n, ast.Name)}
        unused = [p for p in g.params if p not in used]
        if unused:
            res.fail(key, f"{fn} ignores its parameter(s) {unused} when computing the name", nm_mod.line(g.node))
        key = f"{g.key}:prefix"
        res.ob(key)
        rets = [n for n in walk_no_nested(g.node) if isinstance(n, ast.Return)]
        kind = fn.split("_")[0]
        if not rets or not isinstance(rets[0].value, ast.JoinedStr) or not ast.unparse(rets[0].value).startswith(f"f'{kind}_"):
            res.fail(key, f"{fn} does not return an identifier with the `{kind}_` family prefix", nm_mod.line(g.node))
    # every call of form_name / expression_name passes the position of the object in its module: equal signatures are possible
    # (grad(f) and grad(g) for two coefficients of one space at the same points), the index keeps the C names apart
    for m_ in repo.modules.values():
        for fn_ in m_.funcs.values():
            for c in calls_in(fn_.node):
                nm = (call_name(c) or "").split(".")[-1]
                if nm not in ("form_name", "expression_name"):
                    continue
                key = f"{fn_.key}:{nm}:per-object-index"
                res.ob(key)
                res.functions.add(fn_.key)
                callee = nm_mod.func(nm)
                ps = callee.params
                bound = {ps[i]: a for i, a in enumerate(c.args) if i < len(ps)}
                bound.update({k.arg: k.value for k in c.keywords if k.arg})
                idx_param = [p for p in ps if p.endswith("_id") or p in ("index", "i")]
                arg = bound.get(idx_param[0]) if idx_param else None
                if arg is None or (isinstance(arg, ast.Constant) and arg.value is None):
                    res.fail(key, f"{fn_.qualname} calls {nm}() without the position of the object in its module: two objects with the same signature "
                             "(compile_expressions([(grad(f), pts), (grad(g), pts)])) get one C name and the module does not compile", m_.line(c))
                    continue
                # the argument is an enumerate() index of an enclosing loop / comprehension, or a parameter fed by one
                names = {n.id for n in ast.walk(arg) if isinstance(n, ast.Name)}
                enum_vars = set()
                for n in ast.walk(fn_.node):
                    gens = n.generators if isinstance(n, (ast.ListComp, ast.GeneratorExp, ast.SetComp, ast.DictComp)) else ([n] if isinstance(n, ast.For) else [])
                    for g_ in gens:
                        it = g_.iter
                        tg = g_.target
                        if isinstance(it, ast.Call) and call_name(it) == "enumerate" and isinstance(tg, ast.Tuple) and isinstance(tg.elts[0], ast.Name):
                            enum_vars.add(tg.elts[0].id)
                if not (names & (enum_vars | set(fn_.params))):
                    res.fail(key, f"{fn_.qualname}: the index passed to {nm}() is `{ast.unparse(arg)}`, neither an enumerate() index nor a parameter", m_.line(c))
    # jit name lists must be computed by the same naming functions with the module name as prefix
    j = repo.mod(JIT)
    for fname, nmf in (("compile_forms", "form_name"), ("compile_expressions", "expression_name")):
        fj = j.func(fname)
        key = f"{fj.key}:names-from:{nmf}"
        res.ob(key)
        cs_ = [c for c in calls_in(fj.node) if (call_name(c) or "").endswith(nmf)]
        if len(cs_) != 1 or "module_name" not in ast.unparse(cs_[0]):
            res.fail(key, f"{fname} does not compute object names with naming.{nmf}(…, module_name): looked-up names "
                     "differ from the generated ones", j.line(fj.node))


MIN_HEX = 10  # 40 bits


@rule(
    "DIGEST-WIDTH",
    ["C19", "C13"],
    "a truncated digest used as a component of generated identifiers keeps at least 40 bits (10 hex "
    "digits) unless the construction site detects duplicates; QuadratureRule.id() feeds weights_/sp_/sv_/"
    "FE..._Q names of different rules inside one kernel",
    min_instances=1,
)
def digest_width(repo, res):
    for m in repo.modules.values():
        for f in m.funcs.values():
            for n in walk_no_nested(f.node):
                if isinstance(n, ast.Subscript) and isinstance(n.slice, ast.Slice) and "hexdigest()" in ast.unparse(n.value):
                    key = f"{f.key}:truncated-digest"
                    res.ob(key)
                    res.functions.add(f.key)
                    lo, hi = n.slice.lower, n.slice.upper
                    width = None
                    try:
                        if lo is not None and hi is None:
                            v = ast.literal_eval(lo)
                            width = -v if v < 0 else None
                        elif lo is None and hi is not None:
                            v = ast.literal_eval(hi)
                            width = v if v > 0 else None
                    except Exception:
                        width = None
                    if width is None:
                        res.notes.append(f"{key}: slice `{ast.unparse(n.slice)}` not understood")
                        continue
                    if width < MIN_HEX:
                        res.fail(key, f"{f.key} keeps only {width} hex digits ({4 * width} bits) of a digest used in "
                                 "generated identifiers: distinct quadrature rules collide (triangle default degree 15 "
                                 "and 26 both end in b76 -> duplicate `weights_b76`)", m.line(n))


@rule(
    "RULE-SCOPED-NAMES",
    ["C19", "C11", "C10"],
    "identifier families that are instantiated once per quadrature rule at kernel scope carry the rule's "
    "id: the piecewise (sp_) and varying (sv_) temporaries of the integral generator, the weights table "
    "and the element-table names; temporaries cached across rules (fw) are keyed by the rule",
    min_instances=5,
)
def rule_scoped_names(repo, res):
    ig = repo.mod("ffcx.codegeneration.integral_generator")
    for q, required in (("IntegralGenerator.generate_piecewise_partition", True), ("IntegralGenerator.generate_varying_partition", True)):
        f = ig.func(q)
        res.functions.add(f.key)
        key = f"{f.key}:name-has-rule-id"
        res.ob(key)
        rule_param = f.params[1]
        calls = [c for c in calls_in(f.node) if (call_name(c) or "").endswith("generate_partition")]
        if len(calls) != 1:
            raise AnalysisError(f"{q}: generate_partition call not found")
        sl = Slicer(f.node)
        t = sl.text(calls[0].args[0])
        if not re.search(rf"\{{{rule_param}\.id\(\)\}}", t):
            res.fail(key, f"{q} names its temporaries `{ast.unparse(sl.defs.get(getattr(calls[0].args[0], 'id', ''), [calls[0].args[0]])[0])[:70]}` "
                     "without the quadrature rule's id: the counter restarts for every rule, so a kernel with two rules "
                     "(dx(degree=2) + dx(degree=4)) declares the same identifier twice", ig.line(f.node))
    f = ig.func("IntegralGenerator.generate_block_parts")
    key = f"{f.key}:fw-cache-key"
    res.ob(key)
    src = ast.unparse(f.node)
    m = re.search(r"(\w+) = \(([^\n]*)\)\n\s+\w+, \w+ = self\.get_temp_symbol\('fw', \1\)", src)
    if not m or f.params[1] not in m.group(2) or "factor_index" not in m.group(2):
        res.fail(key, "the fw temporaries are not cached per (quadrature rule, factor): a value computed with one rule's weights is "
                 "reused for another rule", ig.line(f.node), props=("C11", "C19"))
    sm = repo.mod("ffcx.codegeneration.symbols")
    f = sm.func("FFCXBackendSymbols.weights_table")
    key = f"{f.key}:name-has-rule-id"
    res.ob(key)
    from ..absint import Interp as _I, Node as _N, Raised as _R, _PyCall as _PC
    from ..lnodes_model import load_classes as _lc

    it_ = _I(repo, _lc(repo), primary="ffcx.codegeneration.symbols")
    it_.obj_classes["FFCXBackendSymbols"] = "ffcx.codegeneration.symbols"
    symbols = _N("FFCXBackendSymbols", quadrature_weight_tables={})
    r0 = _N("QuadratureRule", id=_PC(lambda: "aaaa000000"))
    r1 = _N("QuadratureRule", id=_PC(lambda: "bbbb111111"))
    try:
        s0 = it_.call_f(f, [symbols, r0])
        s1 = it_.call_f(f, [symbols, r1])
        s0b = it_.call_f(f, [symbols, r0])
        n0, n1, n0b = s0.f.get("name"), s1.f.get("name"), s0b.f.get("name")
    except _R as e:
        n0 = n1 = n0b = f"raises {e.what}"
    if not (isinstance(n0, str) and "aaaa000000" in n0 and "bbbb111111" in str(n1) and n0 != n1 and n0 == n0b):
        res.fail(key, f"weights tables of two rules are named {n0!r} and {n1!r} (again: {n0b!r}): the name must contain the rule id and be stable per rule", sm.line(f.node))
    et = repo.mod("ffcx.ir.elementtables")
    f = et.func("generate_psi_table_name")
    key = f"{f.key}:name-has-rule-id"
    res.ob(key)
    if not re.search(rf"_Q\{{{f.params[0]}\.id\(\)\}}", ast.unparse(f.node)):
        res.fail(key, "element table names do not end in the quadrature rule id: tables of different rules collide", et.line(f.node))
    # every table reference created while building the tables of ONE rule is named with that rule's id
    b = et.func("build_optimized_tables")
    res.functions.add(b.key)
    rp = "quadrature_rule"
    if rp not in b.params:
        raise AnalysisError("build_optimized_tables has no quadrature_rule parameter")
    sl = Slicer(b.node)
    ctors = [c for c in calls_in(b.node) if (call_name(c) or "") == "UniqueTableReferenceT"]
    if len(ctors) < 2:
        raise AnalysisError("build_optimized_tables: UniqueTableReferenceT constructions not found")
    for n_, c in enumerate(ctors):
        key = f"{b.key}:table-name-has-rule-id:{n_}"
        res.ob(key)
        nm = kwarg(c, "name") if kwarg(c, "name") is not None else (c.args[0] if c.args else None)
        if nm is None:
            res.fail(key, "table reference without a name", et.line(c))
            continue
        t = sl.text(nm)
        scoped = re.search(rf"\{{{rp}\.id\(\)\}}", t) or re.search(rf"generate_psi_table_name\(\s*{rp}\b", t)
        if not scoped:
            res.fail(key, f"table `{ast.unparse(nm)}` is created per quadrature rule (its values are tabulated at this rule's points) but its name does not "
                     "contain the rule id and the counter restarts for every rule: with sum_factorization=True and two rules in one integral "
                     "(u*v*dx(degree=2) + inner(grad(u), grad(v))*dx(degree=4), Q2 tensor-product element) both rules' factor tables are called "
                     "FE_TF0.. and the later one replaces the earlier one", et.line(c), props=("C10", "C19", "C11"))
    # name components all present
    key = f"{f.key}:components"
    res.ob(key)
    src = ast.unparse(f.node)
    for comp in ("FE{element_counter:d}", "_C{flat_component:d}", "'_D' + ''.join", "averaged]", "entity_type]"):
        if comp not in src:
            res.fail(key, f"table name lacks the component `{comp}`: tables of different terminals share a name", et.line(f.node))


@rule(
    "ID-EQ-COHERENCE",
    ["C19", "C13", "C11"],
    "QuadratureRule.id() names every rule-dependent identifier (weights_<id>, tables _Q<id>, sp_/sv_ temporaries) while "
    "__eq__ decides which rules are kept apart in a kernel: the digest behind id() must consume every field __eq__ compares "
    "(points and weights), otherwise two rules that differ only in the unhashed field are both generated under one name "
    "(redefinition in C, or one rule's tables replacing the other's)",
    min_instances=2,
)
def id_eq_coherence(repo, res):
    """QuadratureRule interpreted (constructor, __hash__, __eq__, id) on pairs of sample rules with a collision-free model of hashlib."""
    import hashlib as _hl

    from ..absint import Interp, Node, PyNative, Raised, _PyCall
    from ..lnodes_model import load_classes
    from ..npmodel import NDArr, install_arrays

    RU = "ffcx.ir.representationutils"
    m = repo.mod(RU)
    fn = {n: m.func(f"QuadratureRule.{n}") for n in ("__init__", "__hash__", "__eq__", "id")}
    res.functions.update(f.key for f in fn.values())
    loc = m.line(fn["id"].node)

    class _Sha(PyNative):
        def __init__(self, data=None):
            self.h = _hl.sha1()
            if data is not None:
                self.update(data)

        def update(self, d):
            vals = d.flat() if isinstance(d, NDArr) else (list(d) if isinstance(d, (list, tuple)) else [d])
            self.h.update(repr([float(v).hex() for v in vals]).encode())  # exact content of the doubles, like the raw bytes

        def hexdigest(self):
            return self.h.hexdigest()

    def tol_close(a, b, rtol=1e-05, atol=1e-08, **k):
        fa = a.flat() if isinstance(a, NDArr) else list(a)
        fb = b.flat() if isinstance(b, NDArr) else list(b)
        if len(fa) != len(fb):
            raise Raised("ValueError: operands could not be broadcast together")
        return all(abs(x - y) <= atol + rtol * abs(y) for x, y in zip(fa, fb))

    def np_round(a, decimals=0):
        if isinstance(a, NDArr):
            return NDArr([round(float(v), decimals) for v in a.flat()]).reshape(a.shape)
        return NDArr([round(float(v), decimals) for v in a])

    def world():
        it = install_arrays(Interp(repo, load_classes(repo), primary=RU))
        it.obj_classes["QuadratureRule"] = RU
        for nm in ("sha1", "sha256", "md5", "sha512", "blake2b"):
            it.overrides[f"hashlib.{nm}"] = _PyCall(lambda d=None, **k: _Sha(d))
        it.overrides["np.allclose"] = _PyCall(tol_close)
        it.overrides["np.round"] = _PyCall(np_round)
        it.overrides["np.around"] = _PyCall(np_round)
        return it

    def make(it, pts, wts):
        r = Node("QuadratureRule")
        it.call_f(fn["__init__"], [r, NDArr(pts), NDArr(wts)])
        return r

    base_p, base_w = [[0.25, 0.5], [0.125, 0.625]], [0.3, 0.2]
    eps = 2.0 ** -54
    pairs = [
        ("identical rules", (base_p, base_w), (base_p, base_w), True),
        ("same points, different weights (two custom rules / the vertex scheme next to a Gauss rule)", (base_p, base_w), (base_p, [0.25, 0.25]), False),
        ("points that differ in the last bit (default(1) and Gauss-Jacobi(1) on a triangle agree up to round-off)", (base_p, base_w), ([[0.25 + eps, 0.5], [0.125, 0.625]], base_w), False),
        ("weights that differ in the last bit", (base_p, base_w), (base_p, [0.3 + eps * 2, 0.2]), False),
        ("different points", (base_p, base_w), ([[0.5, 0.25], [0.125, 0.625]], base_w), False),
    ]
    for label, a, b, same in pairs:
        key = f"{fn['id'].key}:{label.split(' (')[0]}"
        res.ob(key)
        it = world()
        try:
            ra, rb = make(it, *a), make(it, *b)
            ha, hb = it.call_f(fn["__hash__"], [ra]), it.call_f(fn["__hash__"], [rb])
            ia, ib = it.call_f(fn["id"], [ra]), it.call_f(fn["id"], [rb])
            eq = bool(it.call_f(fn["__eq__"], [ra, rb]))
        except Raised as e:
            res.fail(key, f"QuadratureRule raises ({e.what}) on {label}", loc)
            continue
        one_key = (ha == hb) and eq  # one dictionary entry <=> equal hash and __eq__
        if same:
            if not one_key or ia != ib:
                res.fail(key, f"two rules with identical points and weights are {'two dictionary keys' if not one_key else 'one key'} with ids {ia} / {ib}: the same rule must "
                         "always get the same id (names would change between compilations)", loc)
        else:
            if not one_key and ia == ib:
                res.fail(key, f"{label}: the two rules are different dictionary keys of the integrand map (hash {'differs' if ha != hb else 'equal'}, __eq__ {eq}), so both are "
                         f"generated in one kernel, but id() is {ia} for both: weights_{ia}, the _Q{ia} tables and the sp_{ia}_k temporaries are declared twice", loc)
            if one_key:
                res.notes.append(f"{label}: treated as one rule (equal hash and __eq__)")


@rule(
    "SIG-RENUMBERING",
    ["C13", "C12", "C14"],
    "compute_signature interpreted on an expression whose terminals live on two meshes, under several creation histories (the meshes' "
    "process-wide ufl ids in either order and across a power of ten, so that numeric and lexicographic order disagree) and hash "
    "seeds: the renumbering handed to UFL's expression signature - coefficients, constants, arguments and meshes numbered by where the "
    "expression meets them - must be the same mapping in every history; anything ordered by ufl_id / repr / a set is not",
    min_instances=3,
)
def sig_renumbering(repo, res):
    from ..absint import Interp, Node, PyNative, Raised, _PyCall
    from ..lnodes_model import load_classes
    from ..npmodel import NDArr, install_arrays

    m = repo.mod(NAMING)
    cs = m.func("compute_signature")
    res.functions.add(cs.key)
    loc = m.line(cs.node)

    class Mesh(PyNative):
        def __init__(self, role, uid):
            self.role, self.uid = role, uid

        def ufl_id(self):
            return self.uid

        def _ufl_sort_key_(self):
            return ("Mesh", 2, self.uid)  # UFL: type name, dimensions, then the global counter

        def _ufl_signature_data_(self, renumbering):
            return ("Mesh", renumbering[self])

        def __repr__(self):
            return f"Mesh(blocked element (P1, (2,)), {self.uid})"

        __str__ = __repr__

        def __hash__(self):
            return hash(("Mesh", self.uid))

        def __eq__(self, o):
            return isinstance(o, Mesh) and o.uid == self.uid

        def __lt__(self, o):
            return self._ufl_sort_key_() < o._ufl_sort_key_()

    class Term(PyNative):
        def __init__(self, kind, name, mesh):
            self.kind, self.name, self.mesh = kind, name, mesh

        def __repr__(self):
            return f"{self.kind}({self.name})"

        def __hash__(self):
            return hash((self.kind, self.name))

        def __eq__(self, o):
            return isinstance(o, Term) and (o.kind, o.name) == (self.kind, self.name)

    class GeometricQuantity(Term):
        pass

    def run(ids):
        A, B = Mesh("A", ids["A"]), Mesh("B", ids["B"])
        # expression order: f (on B), x (geometry of A), g (on A), constant k (on B)
        f_, x_, g_, k_ = Term("Coefficient", "f", B), GeometricQuantity("SpatialCoordinate", "x", A), Term("Coefficient", "g", A), Term("Constant", "k", B)
        expr = Node("Expr", name="f*x*g*k", terminals=[f_, x_, g_, k_])
        it = install_arrays(Interp(repo, load_classes(repo), primary=NAMING))
        it.extra_bases["Expr"] = ("Expr",)
        seen = {}

        def domains_of(e_):
            if isinstance(e_, Term):
                return [e_.mesh]
            # of a whole expression: UFL's canonical order, which starts from a set and sorts by _ufl_sort_key_ (ufl ids)
            return sorted({t.mesh for t in e_.f["terminals"]}, key=lambda d: d._ufl_sort_key_())
        for pre in ("ufl.algorithms.", "ufl.algorithms.analysis."):
            it.overrides[pre + "extract_coefficients"] = _PyCall(lambda e_: [t for t in e_.f["terminals"] if t.kind == "Coefficient"])
            it.overrides[pre + "extract_constants"] = _PyCall(lambda e_: [t for t in e_.f["terminals"] if t.kind == "Constant"])
            it.overrides[pre + "extract_arguments"] = _PyCall(lambda e_: [])
        it.overrides["ufl.algorithms.analysis.unique_tuple"] = _PyCall(lambda d: tuple(dict.fromkeys(d)))
        it.overrides["ufl.domain.extract_domains"] = _PyCall(domains_of)
        it.overrides["ufl.domain.extract_unique_domain"] = _PyCall(lambda e_: domains_of(e_)[0])
        it.overrides["ufl.corealg.traversal.unique_pre_traversal"] = _PyCall(lambda e_: [e_] + list(e_.f["terminals"]))
        it.overrides["ufl.Mesh"] = "Mesh"
        it.overrides["ufl.classes.GeometricQuantity"] = "GeometricQuantity"

        def expr_sig(e_, rn):
            seen["rn"] = {(k.role if isinstance(k, Mesh) else repr(k)): v for k, v in rn.items()}
            return "EXPRSIG" + repr(sorted(seen["rn"].items()))
        it.overrides["ufl.algorithms.signature.compute_expression_signature"] = _PyCall(expr_sig)
        it.overrides["ffcx.__version__"] = "0.0"
        it.overrides["ffcx.codegeneration.get_signature"] = _PyCall(lambda: "HDR")
        it.overrides["hashlib.sha1"] = _PyCall(lambda d=b"", **k: Node("Sha", hexdigest=_PyCall(lambda: "H" + repr(d))))
        pts = NDArr([[0.25, 0.5]], (1, 2))
        out = it.call_f(cs, [[(expr, pts)], "tag"])
        return out, seen.get("rn")

    histories = {"A created first": {"A": 5, "B": 9}, "B created first": {"A": 9, "B": 5}, "ids 9 and 10": {"A": 10, "B": 9}, "ids 99 and 100": {"A": 99, "B": 100},
                 "ids 10 and 9 swapped": {"A": 9, "B": 10}}
    results = {}
    key = f"{cs.key}:history-independent-renumbering"
    res.ob(key)
    for label, ids in histories.items():
        try:
            results[label] = run(ids)
        except Raised as e:
            res.fail(key, f"compute_signature raises ({e.what}) on a two-mesh expression ({label})", loc)
            return
    first = next(iter(results))
    for label, (sig, rn) in results.items():
        if rn != results[first][1] or sig != results[first][0]:
            res.fail(key, f"an expression f*x*g*k with f, k on mesh B and x, g on mesh A is renumbered {rn} when the meshes' ufl ids are {histories[label]}, but "
                     f"{results[first][1]} when they are {histories[first]}: the numbering of the domains depends on which mesh was created first (ufl_id, repr or "
                     "UFL's sort key), so module and object names differ between processes building the same expression", loc)
            break
    key = f"{cs.key}:renumbering-by-first-occurrence"
    res.ob(key)
    rn = results[first][1] or {}
    want = {"Coefficient(f)": 0, "Coefficient(g)": 1, "Constant(k)": 0, "B": 0, "A": 1}
    if rn != want:
        res.fail(key, f"renumbering is {rn}, expected {want}: coefficients and constants by position, meshes in the order coefficients, arguments, geometric quantities "
                 "(expression order) and constants meet them", loc)
    key = f"{cs.key}:every-terminal-renumbered"
    res.ob(key)
    if not {"A", "B"} <= set(rn):
        res.fail(key, f"not every mesh of the expression is renumbered ({rn}): an unrenumbered mesh enters the signature with its process-wide id", loc)
