"""C13 (and the naming part of C19): JIT signatures and generated object names.

SIG-COMPLETE   every input that can change the generated module flows into the hashed string
SIG-INJECTIVE  each component is rendered injectively (no lossy repr of arrays, no truncation)
NAME-KEY       names computed inside a loop over entities are a function of an injective key
DIGEST-WIDTH   a truncated digest used as a name component keeps enough bits
"""

from __future__ import annotations

import ast
import re

from ..flow import Slicer
from ..model import AnalysisError, call_name, calls_in, dotted, kwarg, walk_no_nested
from ..registry import rule

NAMING = "ffcx.naming"
JIT = "ffcx.codegeneration.jit"


def _hash_calls(fnode):
    """hashlib calls whose digest is the function's result (inner helper digests are components)."""
    allc = [c for c in calls_in(fnode) if (call_name(c) or "").startswith("hashlib.")]
    final = []
    for r in [n for n in walk_no_nested(fnode) if isinstance(n, ast.Return) and n.value is not None]:
        for c in allc:
            if any(x is c for x in ast.walk(r.value)):
                final.append(c)
    return final or allc


def _mutations_text(fnode, var: str) -> str:
    """Text of everything stored into / appended to a local container variable."""
    out = []
    for n in walk_no_nested(fnode):
        if isinstance(n, ast.Call) and isinstance(n.func, ast.Attribute) and isinstance(n.func.value, ast.Name) and n.func.value.id == var:
            out.append(ast.unparse(n))
        if isinstance(n, ast.Assign):
            for t in n.targets:
                if isinstance(t, ast.Subscript) and isinstance(t.value, ast.Name) and t.value.id == var:
                    out.append(ast.unparse(n))
        if isinstance(n, ast.AugAssign) and isinstance(n.target, ast.Name) and n.target.id == var:
            out.append(ast.unparse(n))
    return " ;; ".join(out)


def _full_slice_text(fnode, expr, depth=8) -> str:
    """Backward slice text including in-place growth (`x += ...`, `x.update(...)`, `x.append(...)`)."""
    sl = Slicer(fnode)
    seen_vars = set()
    texts = []
    todo = [expr]
    while todo:
        e = todo.pop()
        for x in sl.expand(e, depth):
            texts.append(ast.unparse(x))
            for n in ast.walk(x):
                if isinstance(n, ast.Name) and n.id not in seen_vars:
                    seen_vars.add(n.id)
                    mt = _mutations_text(fnode, n.id)
                    if mt:
                        texts.append(mt)
                        for stmt in walk_no_nested(fnode):
                            if isinstance(stmt, ast.Call) and isinstance(stmt.func, ast.Attribute) and isinstance(stmt.func.value, ast.Name) \
                                    and stmt.func.value.id == n.id:
                                todo.extend(stmt.args)
                            if isinstance(stmt, ast.AugAssign) and isinstance(stmt.target, ast.Name) and stmt.target.id == n.id:
                                todo.append(stmt.value)
    return " ;; ".join(texts)


def _sub_elements(elements):
    """ufl.algorithms.analysis.extract_sub_elements on stand-in elements (parents first, then their sub-elements, recursively)"""
    subs = tuple(x for e in elements for x in getattr(e, "sub_elements", ()))
    return tuple(elements) if not subs else (*elements, *_sub_elements(subs))


def _uniq(elements):
    out = []
    for e in elements:
        if not any(e is o for o in out):
            out.append(e)
    return tuple(out)


def element_world(it):
    """UFL's element extraction over stand-in forms: a form stand-in lists its elements in `_elements` (none by default)"""
    from ..absint import _PyCall
    for pre in ("ufl.algorithms.", "ufl.algorithms.analysis."):
        it.overrides[pre + "extract_elements"] = _PyCall(lambda f_: tuple(getattr(f_, "_elements", ())))
        it.overrides[pre + "extract_unique_elements"] = _PyCall(lambda f_: _uniq(getattr(f_, "_elements", ())))
        it.overrides[pre + "extract_sub_elements"] = _PyCall(_sub_elements)
        it.overrides.setdefault(pre + "unique_tuple", _PyCall(_uniq))
    return it


class _PlainElementStandIn:
    sub_elements = ()
    has_custom_quadrature = False

    def __repr__(self):
        return "P1"



@rule(
    "SIG-COMPLETE",
    ["C13", "C10", "C04", "C14"],
    "the string hashed by naming.compute_signature slices back to: each form's UFL signature / each "
    "expression's renumbered signature (renumbering built from coefficients, constants, arguments and "
    "domains) and its evaluation points, ffcx.__version__, the ufcx.h hash, the kind and the caller's "
    "tag; at both jit call sites the tag slices back to ALL merged options, the extra compile args, "
    "the debug flag and the interpreter ABI / CFLAGS (decided by interpreting the three functions on pairs of requests that differ in "
    "one ingredient; what the JIT entry points pass: JIT-FLOW)",
    min_instances=14,
)
def sig_complete(repo, res):
    """C13 for every finding; additionally C10 when an option escapes the module name (a later request with other option values
    is served the cached module), C04 when the evaluation points do."""
    _sig_complete(repo, res)
    for f_ in res.findings:
        extra = (("C10",) if "option" in f_.msg.lower() else ()) + (("C04",) if "points" in f_.msg.lower() or ":points" in f_.key else ())
        f_.props = ("C13", "C14") + extra   # C14: on a shared cache the later of two conflated requests is handed the other one's module


def _sig_complete(repo, res):
    """Sensitivity by interpretation: compute_signature, _compute_option_signature and _compilation_signature are interpreted with a
    collision-free hash model on pairs of requests that differ in exactly one ingredient; the results must differ (and agree for
    equal requests). What the two JIT entry points feed into them is decided by JIT-FLOW."""
    from ..absint import Interp, Node, PyNative, Raised, _PyCall
    from ..lnodes_model import load_classes
    from ..npmodel import NDArr, install_arrays

    m = repo.mod(NAMING)
    cs = m.func("compute_signature")
    res.functions.add(cs.key)
    loc = m.line(cs.node)

    class _Sha(PyNative):
        def __init__(self, data=b""):
            self.data = bytes(data)

        def update(self, more):
            self.data += bytes(more)

        def hexdigest(self):
            return "H<" + self.data.hex() + ">"

    class Form(PyNative):
        def __init__(self, sig):
            self.sig = sig

        def signature(self):
            return self.sig

        def integrals(self):
            return []

    class Expr(PyNative):
        def __init__(self, name):
            self.name = name

    def run(objs, tag="tag", version="1.0", header="HDR"):
        it = element_world(install_arrays(Interp(repo, load_classes(repo), primary=NAMING)))
        for nm in ("sha1", "sha256", "md5", "sha512", "blake2b"):
            it.overrides[f"hashlib.{nm}"] = _PyCall(lambda d=b"", **k: _Sha(d))
        it.overrides["ufl.Form"] = Form
        it.overrides["ufl.core.expr.Expr"] = Expr
        for pre in ("ufl.algorithms.", "ufl.algorithms.analysis."):
            for fn_ in ("extract_coefficients", "extract_constants", "extract_arguments"):
                it.overrides[pre + fn_] = _PyCall(lambda e_: [])
        it.overrides["ufl.algorithms.analysis.unique_tuple"] = _PyCall(lambda d: tuple(d))
        it.overrides["ufl.domain.extract_domains"] = _PyCall(lambda e_: [])
        it.overrides["ufl.corealg.traversal.unique_pre_traversal"] = _PyCall(lambda e_: [])
        it.overrides["ufl.algorithms.signature.compute_expression_signature"] = _PyCall(lambda e_, rn: "EXPRSIG:" + e_.name)
        it.overrides["ffcx.__version__"] = version
        it.overrides["ffcx.codegeneration.get_signature"] = _PyCall(lambda: header)
        return it.call_f(cs, [list(objs), tag])

    P = NDArr([[0.25, 0.5]], (1, 2))
    base_f, base_e = [Form("SIG-A"), Form("SIG-B")], [(Expr("e1"), P)]
    pairs = {
        "form-signature": (lambda: run(base_f), lambda: run([Form("SIG-A"), Form("SIG-C")])),
        "number-and-order-of-forms": (lambda: run(base_f), lambda: run(list(reversed(base_f)))),
        "expression-signature": (lambda: run(base_e), lambda: run([(Expr("e2"), P)])),
        "ffcx-version": (lambda: run(base_f), lambda: run(base_f, version="1.1")),
        "ufcx-header-hash": (lambda: run(base_f), lambda: run(base_f, header="HDR2")),
        "tag": (lambda: run(base_f), lambda: run(base_f, tag="other")),
        # a form whose signature text equals what an expression contributes must still be told apart by the kind
        "kind": (lambda: run([(Expr("e1"), NDArr([], (0, 2)))]), lambda: run([Form("EXPRSIG:e1" + str((0, 2)) + _Sha(NDArr([], (0, 2)).tobytes()).hexdigest())])),
    }
    for name, (fa, fb) in pairs.items():
        key = f"{cs.key}:hashed:{name}"
        res.ob(key)
        try:
            a, b, a2 = fa(), fb(), fa()
        except Raised as e:
            res.fail(key, f"compute_signature raises ({e.what})", loc)
            continue
        if a == b:
            res.fail(key, f"two requests that differ only in the {name} get the same signature: they share a module name and the second is served the first one's binary", loc)
        if a != a2:
            res.fail(key, "the same request gives two different signatures", loc)
    key = f"{cs.key}:full-digest"
    res.ob(key)
    try:
        d = run(base_f)
        if not (isinstance(d, str) and d.startswith("H<") and d.endswith(">")):
            res.fail(key, f"the signature returned is `{str(d)[:40]}...`, not the full digest (a truncated digest lets different requests collide)", loc)
    except Raised as e:
        res.fail(key, f"compute_signature raises ({e.what})", loc)
    key = f"{cs.key}:unknown-object-rejected"
    res.ob(key)
    try:
        run(["not a form"])
        res.fail(key, "an object that is neither a form nor an (expression, points) pair is hashed instead of being rejected", loc)
    except Raised:
        pass
    # ---- option signature
    j = repo.mod(JIT)
    osig = j.func("_compute_option_signature")
    res.functions.add(osig.key)

    def opt(d):
        from ..npmodel import install as _install_np
        it = _install_np(Interp(repo, load_classes(repo), primary=JIT))
        it.overrides["ffcx.options.get_options"] = _PyCall(lambda *a, **k: {"scalar_type": "float64", "table_rtol": 1e-6, "verbosity": 30, "part": "full", "sum_factorization": False})
        return it.call_f(osig, [dict(d)])
    # every option the repository declares (ffcx.options.FFCX_DEFAULT_OPTIONS, read from the source) other than the logger verbosity
    declared = _declared_options(repo)
    O = {"scalar_type": "float64", "table_rtol": 1e-6, "verbosity": 30, "part": "full", "sum_factorization": False, **{k: v for k, (v, _) in declared.items()}}
    cases = [("scalar_type", {**O, "scalar_type": "float32"}), ("scalar_type (real vs complex of one precision)", {**O, "scalar_type": "complex128"}), ("table_rtol", {**O, "table_rtol": 1e-3}),
             ("part", {**O, "part": "diagonal"}), ("sum_factorization", {**O, "sum_factorization": True}), ("an-additional-option", {**O, "new_option": 1})]
    for k, (_, alt) in declared.items():
        if k != "verbosity" and k not in ("scalar_type", "table_rtol", "part", "sum_factorization"):
            cases.append((k, {**O, k: alt}))
    for name, other in cases:
        key = f"{osig.key}:sensitive:{name}"
        res.ob(key)
        try:
            if opt(O) == opt(other):
                res.fail(key, f"options that differ only in `{name}` have the same option signature: the generated code differs but the module name does not, so the later "
                         "request is served the earlier module (option values equal to the defaults, or options counted as irrelevant, must still be part of it)", j.line(osig.node))
        except Raised as e:
            res.fail(key, f"_compute_option_signature raises ({e.what})", j.line(osig.node))
    key = f"{osig.key}:order-independent"
    res.ob(key)
    try:
        if opt(O) != opt(dict(reversed(list(O.items())))):
            res.fail(key, "the option signature depends on the insertion order of the option dict", j.line(osig.node))
    except Raised as e:
        res.fail(key, f"_compute_option_signature raises ({e.what})", j.line(osig.node))
    # ---- compilation signature
    csig = j.func("_compilation_signature")
    res.functions.add(csig.key)

    def comp(args, debug, libs, platform="linux", cfg=None):
        it = Interp(repo, load_classes(repo), primary=JIT)
        it.overrides["sys.platform"] = platform
        cfg = cfg or {}
        it.overrides["sysconfig.get_config_var"] = _PyCall(lambda k: cfg.get(k, f"<{k}>"))
        return it.call_f(csig, [list(args), debug, list(libs)])
    base = (["-O0", "-g"], False, ["m"])
    variants = {"flags": (["-O2", "-g"], False, ["m"]), "flag-order": (["-g", "-O0"], False, ["m"]), "repeated-flag": (["-O0", "-g", "-g"], False, ["m"]),
                "debug": (["-O0", "-g"], True, ["m"]), "libraries": (["-O0", "-g"], False, ["m", "foo"])}
    for plat in ("linux", "win32"):
        for name, v in variants.items():
            key = f"{csig.key}:{plat}:sensitive:{name}"
            res.ob(key)
            try:
                if comp(*base, platform=plat) == comp(*v, platform=plat):
                    res.fail(key, f"requests that differ only in the {name} ({base} vs {v}) have the same compilation signature on {plat}: compilers honour flag order and "
                             "repetition (the last -O wins), the debug mode and the linked libraries change the binary", j.line(csig.node))
            except Raised as e:
                res.fail(key, f"_compilation_signature raises ({e.what}) on {plat}", j.line(csig.node))
        key = f"{csig.key}:{plat}:abi"
        res.ob(key)
        try:
            var = "EXT_SUFFIX" if plat == "win32" else "SOABI"
            if comp(*base, platform=plat) == comp(*base, platform=plat, cfg={var: "another-abi"}):
                res.fail(key, f"the compilation signature on {plat} does not contain the interpreter ABI tag ({var}): modules built for another Python are loaded", j.line(csig.node))
        except Raised as e:
            res.fail(key, f"_compilation_signature raises ({e.what}) on {plat}", j.line(csig.node))


def _declared_options(repo):
    """{option: (default, another admissible value)} read from the literal FFCX_DEFAULT_OPTIONS table in ffcx/options.py."""
    try:
        om = repo.mod("ffcx.options")
    except Exception:
        return {}
    out = {}
    for st in om.tree.body:
        tgt = st.targets[0] if isinstance(st, ast.Assign) else (st.target if isinstance(st, ast.AnnAssign) else None)
        if isinstance(tgt, ast.Name) and tgt.id == "FFCX_DEFAULT_OPTIONS" and isinstance(st.value, ast.Dict):
            for k, v in zip(st.value.keys, st.value.values):
                if not (isinstance(k, ast.Constant) and isinstance(v, ast.Tuple) and len(v.elts) == 4):
                    continue
                try:
                    default = ast.literal_eval(v.elts[1])
                    choices = ast.literal_eval(v.elts[3])
                except Exception:
                    continue
                if choices:
                    alt = next((c for c in choices if c != default), None)
                elif isinstance(default, bool):
                    alt = not default
                elif isinstance(default, (int, float)):
                    alt = default * 8 if default else 1
                else:
                    alt = str(default) + "_other"
                if alt is not None:
                    out[k.value] = (default, alt)
    return out


LOSSY_RENDERERS = {"repr", "str", "format", "ascii"}
INJECTIVE_ARRAY = ("tobytes", "tolist", "tostring", "dumps", "hexdigest", "digest")


@rule(
    "SIG-INJECTIVE",
    ["C13", "C04", "C14"],
    "no component of the hashed signature is rendered through a lossy conversion: repr/str/f-string of "
    "a NumPy array (8 significant digits, elision beyond 1000 elements) or a %g-style format",
    min_instances=1,
)
def sig_injective(repo, res):
    """compute_signature interpreted on expression objects whose point arrays differ only where a lossy rendering cannot see it."""
    from ..absint import Interp, Node, PyNative, Raised, _PyCall
    from ..lnodes_model import load_classes
    from ..npmodel import NDArr, install_arrays

    m = repo.mod(NAMING)
    cs = m.func("compute_signature")
    res.functions.add(cs.key)

    class _Sha(PyNative):
        """A perfect hash: the digest is the content, so two digests agree iff everything that was hashed agrees."""

        def __init__(self, data=b""):
            self.data = bytes(data)

        def update(self, more):
            self.data += bytes(more)

        def hexdigest(self):
            return "H<" + self.data.hex() + ">"

    expr = Node("Expr", name="e")

    def sig(points, tag="t"):
        it = element_world(install_arrays(Interp(repo, load_classes(repo), primary=NAMING)))
        for nm in ("sha1", "sha256", "md5", "sha512"):
            it.overrides[f"hashlib.{nm}"] = _PyCall(lambda d=b"", **k: _Sha(d))
        for pre in ("ufl.algorithms.", "ufl.algorithms.analysis."):
            for fn_ in ("extract_coefficients", "extract_constants", "extract_arguments"):
                it.overrides[pre + fn_] = _PyCall(lambda e_: [])
        it.overrides["ufl.algorithms.analysis.unique_tuple"] = _PyCall(lambda d: tuple(d))
        it.overrides["ufl.domain.extract_domains"] = _PyCall(lambda e_: [])
        it.overrides["ufl.corealg.traversal.unique_pre_traversal"] = _PyCall(lambda e_: [])
        it.overrides["ufl.algorithms.signature.compute_expression_signature"] = _PyCall(lambda e_, rn: "EXPRSIG")
        it.overrides["ffcx.__version__"] = "0.0"
        it.overrides["ffcx.codegeneration.get_signature"] = _PyCall(lambda: "HDR")
        return it.call_f(cs, [[(expr, points)], tag])

    def arr(shape, fn):
        if len(shape) == 2:
            return NDArr([[fn(i, j) for j in range(shape[1])] for i in range(shape[0])], shape)
        return NDArr([fn(i, 0) for i in range(shape[0])], shape)

    pairs = {
        "points differing in the 11th significant digit": (arr((1, 2), lambda i, j: 0.25), arr((1, 2), lambda i, j: 0.25 + (1e-10 if j else 0))),
        "same coordinates, shapes (2,3) and (3,2)": (arr((2, 3), lambda i, j: (3 * i + j) / 8), arr((3, 2), lambda i, j: (2 * i + j) / 8)),
        "1200 points differing in the middle": (arr((1200, 1), lambda i, j: i / 2048), arr((1200, 1), lambda i, j: (i + (1 if i == 600 else 0) / 2) / 2048)),
        "different point sets of equal shape": (arr((2, 2), lambda i, j: 0.125 * (i + j)), arr((2, 2), lambda i, j: 0.125 * (i + 2 * j))),
    }
    for label, (p1, p2) in pairs.items():
        key = f"{cs.key}:exact-encoding:{label}"
        res.ob(key)
        try:
            s1, s2, s1b = sig(p1), sig(p2), sig(p1.copy())
        except Raised as e:
            res.fail(key, f"compute_signature raises ({e.what}) on an expression with {label}", m.line(cs.node))
            continue
        if s1 == s2:
            res.fail(key, f"two expressions with {label} get the same signature: the evaluation points enter it through a lossy rendering (NumPy prints 8 significant "
                     "digits and elides arrays over 1000 elements; raw bytes without the shape make (2,3) and (3,2) collide), so different point sets share a name "
                     "and a cached module", m.line(cs.node))
        if s1 != s1b:
            res.fail(key, "the same expression and points give two different signatures", m.line(cs.node))
    # forms with custom quadrature rules: UFL renders the arrays in the integral metadata with str() (8 significant digits, elision beyond 1000
    # entries), so form.signature() cannot tell such rules apart - the module name must
    class Integral(PyNative):
        def __init__(self, md):
            self._md = md

        def metadata(self):
            return dict(self._md)

    class Form(PyNative):
        def __init__(self, sig_, integrals):
            self._sig, self._integrals = sig_, integrals

        def signature(self):
            return self._sig

        def integrals(self):
            return list(self._integrals)

    def fsig(weights, points):
        it = element_world(install_arrays(Interp(repo, load_classes(repo), primary=NAMING)))
        for nm in ("sha1", "sha256", "md5", "sha512"):
            it.overrides[f"hashlib.{nm}"] = _PyCall(lambda d=b"", **k: _Sha(d))
        it.overrides["ufl.Form"] = Form
        it.overrides["ufl.form.Form"] = Form
        it.overrides["ffcx.__version__"] = "0.0"
        it.overrides["ffcx.codegeneration.get_signature"] = _PyCall(lambda: "HDR")
        md = {"quadrature_rule": "custom", "quadrature_degree": 2, "quadrature_points": points, "quadrature_weights": weights}
        form = Form("UFL-SIGNATURE-THAT-CANNOT-SEE-THE-ARRAYS", [Integral({"quadrature_degree": 2, "quadrature_rule": "default"}), Integral(md)])
        return it.call_f(cs, [[form], "t"])
    P_ = arr((2, 2), lambda i, j: 0.25 + 0.25 * i * (1 - j))
    fpairs = {
        "custom quadrature weights differing in the 10th digit": ((arr((2,), lambda i, j: 0.25), P_), (arr((2,), lambda i, j: 0.25 + (1e-9 if i == 0 else 0)), P_)),
        "custom quadrature points differing in the 10th digit": ((arr((2,), lambda i, j: 0.25), P_), (arr((2,), lambda i, j: 0.25), arr((2, 2), lambda i, j: 0.25 + 0.25 * i * (1 - j) + (1e-9 if (i, j) == (1, 1) else 0)))),
        "1200-point custom rules differing in the middle": ((arr((1200,), lambda i, j: 1 / 2400), arr((1200, 1), lambda i, j: i / 2048)),
                                                             (arr((1200,), lambda i, j: (1 + (1 if i == 600 else 0)) / 2400), arr((1200, 1), lambda i, j: i / 2048))),
    }
    for label, ((w1, q1), (w2, q2)) in fpairs.items():
        key = f"{cs.key}:exact-encoding:form:{label}"
        res.ob(key)
        try:
            s1, s2, s1b = fsig(w1, q1), fsig(w2, q2), fsig(w1.copy(), q1.copy())
        except Raised as e:
            res.fail(key, f"compute_signature raises ({e.what}) on a form with {label}", m.line(cs.node))
            continue
        if s1 == s2:
            res.fail(key, f"two forms with {label} (and therefore the same UFL signature - UFL prints metadata arrays with str()) get the same module name: with a shared "
                     "cache the second request is served the kernel built with the first one's quadrature rule", m.line(cs.node), props=("C13", "C14"))
        if s1 != s1b:
            res.fail(key, "the same form gives two different signatures", m.line(cs.node))
    # quadrature elements: their repr - all the UFL signature sees of them - prints points and weights with NumPy's repr, the same lossy rendering
    class QElement(PyNative):
        sub_elements = ()
        has_custom_quadrature = True

        def __init__(self, points, weights):
            self._p, self._w = points, weights

        def custom_quadrature(self):
            return self._p, self._w

        def __repr__(self):
            return "QuadratureElement(triangle, <8 digits, elided beyond 1000 entries>)"

    class PlainElement(PyNative):
        sub_elements = ()
        has_custom_quadrature = False

        def custom_quadrature(self):
            raise Raised("ValueError: Element does not have custom quadrature")

        def __repr__(self):
            return "P1"

    class MixedElement(PyNative):
        has_custom_quadrature = False

        def __init__(self, subs):
            self.sub_elements = tuple(subs)

        def custom_quadrature(self):
            raise Raised("ValueError: Element does not have custom quadrature")

        def __repr__(self):
            return "Mixed" + repr(self.sub_elements)

    class Fn(PyNative):
        def __init__(self, element, number):
            self._e, self._n = element, number

        def ufl_element(self):
            return self._e

        def number(self):
            return self._n

        def count(self):
            return self._n

    class EForm(Form):
        def __init__(self, elements):
            Form.__init__(self, "UFL-SIGNATURE-OVER-ELEMENT-REPRS", [Integral({"quadrature_degree": 2})])
            self._elements = list(elements)

        def arguments(self):
            return [Fn(self._elements[0], 0)]

        def coefficients(self):
            return [Fn(e, k) for k, e in enumerate(self._elements[1:])]

    class Mesh(PyNative):  # isinstance against `ufl.Mesh` goes by the class name
        pass
    the_mesh = Mesh()

    def esig(elements, as_expression=False):
        it = element_world(install_arrays(Interp(repo, load_classes(repo), primary=NAMING)))
        for nm in ("sha1", "sha256", "md5", "sha512"):
            it.overrides[f"hashlib.{nm}"] = _PyCall(lambda d=b"", **k: _Sha(d))
        it.overrides["ufl.Form"] = Form
        it.overrides["ufl.form.Form"] = Form
        it.overrides["ffcx.__version__"] = "0.0"
        it.overrides["ffcx.codegeneration.get_signature"] = _PyCall(lambda: "HDR")
        if not as_expression:
            return it.call_f(cs, [[EForm(elements)], "t"])
        fns = [Fn(e, k) for k, e in enumerate(elements)]
        for pre in ("ufl.algorithms.", "ufl.algorithms.analysis."):
            it.overrides[pre + "extract_coefficients"] = _PyCall(lambda e_: list(fns[1:]))
            it.overrides[pre + "extract_constants"] = _PyCall(lambda e_: [])
            it.overrides[pre + "extract_arguments"] = _PyCall(lambda e_: list(fns[:1]))
        it.overrides["ufl.Mesh"] = "Mesh"
        it.overrides["ufl.domain.extract_domains"] = _PyCall(lambda e_: [the_mesh])
        it.overrides["ufl.corealg.traversal.unique_pre_traversal"] = _PyCall(lambda e_: [])
        it.overrides["ufl.algorithms.signature.compute_expression_signature"] = _PyCall(lambda e_, rn: "EXPRSIG-OVER-ELEMENT-REPRS")
        return it.call_f(cs, [[(expr, P_)], "t"])
    W_ = arr((2,), lambda i, j: 0.25)
    W2_ = arr((2,), lambda i, j: 0.25 + (1e-9 if i == 0 else 0))
    P2_ = arr((2, 2), lambda i, j: 0.25 + 0.25 * i * (1 - j) + (1e-9 if (i, j) == (1, 1) else 0))
    LW1, LP = arr((1200,), lambda i, j: 1 / 2400), arr((1200, 1), lambda i, j: i / 2048)
    LW2 = arr((1200,), lambda i, j: (1 + (1 if i == 600 else 0)) / 2400)
    epairs = {
        "a quadrature element whose points differ in the 10th digit": ([PlainElement(), QElement(P_, W_)], [PlainElement(), QElement(P2_, W_)]),
        "a quadrature element whose weights differ in the 10th digit": ([PlainElement(), QElement(P_, W_)], [PlainElement(), QElement(P_, W2_)]),
        "a 1200-point quadrature element differing in the middle": ([QElement(LP, LW1), PlainElement()], [QElement(LP, LW2), PlainElement()]),
        "a quadrature sub-element of a mixed element whose weights differ in the 10th digit": ([PlainElement(), MixedElement([PlainElement(), QElement(P_, W_)])],
                                                                                                 [PlainElement(), MixedElement([PlainElement(), QElement(P_, W2_)])]),
    }
    # two functions over quadrature elements with equal repr whose rules are exchanged: f on Q1, g on Q2 against f on Q2, g on Q1 - other kernels
    QA, QB = QElement(P_, W_), QElement(P_, W2_)
    epairs["two quadrature elements of equal repr whose rules are exchanged between two functions"] = ([PlainElement(), QA, QB], [PlainElement(), QB, QA])
    for kind in ("form", "expression"):
        for label, (e1, e2) in epairs.items():
            key = f"{cs.key}:exact-encoding:{kind}:{label}"
            res.ob(key)
            try:
                s1, s2, s1b = esig(e1, kind == "expression"), esig(e2, kind == "expression"), esig(list(e1), kind == "expression")
            except Raised as e:
                res.fail(key, f"compute_signature raises ({e.what}) on {kind} with {label}", m.line(cs.node))
                continue
            if s1 == s2:
                res.fail(key, f"two {kind}s with {label} get the same module name: the UFL signature sees an element through its repr, where basix prints the rule with "
                         "NumPy's repr (8 significant digits, elision beyond 1000 entries); with a shared cache the second request is served the kernel built with "
                         "the first one's quadrature rule", m.line(cs.node), props=("C13", "C14"))
            if s1 != s1b:
                res.fail(key, f"the same {kind} gives two different signatures", m.line(cs.node))
    key = f"{cs.key}:tag"
    res.ob(key)
    p0 = pairs["different point sets of equal shape"][0]
    try:
        if sig(p0, "a") == sig(p0, "b"):
            res.fail(key, "the tag does not enter the signature: objects distinguished only by their tag (form id, prefix, integral type) share a name", m.line(cs.node))
    except Raised as e:
        res.fail(key, f"compute_signature raises ({e.what})", m.line(cs.node))


@rule(
    "NAME-KEY",
    ["C13", "C19", "C06"],
    "the naming functions (integral_name, form_name, expression_name), interpreted with an injective stand-in for compute_signature, "
    "give different names whenever any of their parameters differs and names of their own family (integral_ / form_ / expression_); "
    "compute_ir, interpreted with those naming functions, gives distinct names to two forms with equal signature and to two integral "
    "groups of one form that agree in type and subdomain id (different meshes), and hands every integral group its own name; "
    "_compute_expression_ir names two expressions of one module differently (slice interpreted)",
    min_instances=10,
)
def name_key(repo, res):
    """C13/C19 for every finding; C06 only where two kernels of one form end up under one name (explicit props at that site)."""
    _name_key(repo, res)
    for f_ in res.findings:
        if not f_.props:
            f_.props = ("C13", "C19")


def _name_key(repo, res):
    from ..absint import Interp, Node, PyNative, Raised, _PyCall
    from ..lnodes_model import load_classes
    from ..sliceint import value_of
    from ._irsamples import IRSamples

    nm_mod = repo.mod(NAMING)
    rep = repo.mod("ffcx.ir.representation")

    class Obj(PyNative):
        def __init__(self, name):
            self.name = name

        def __repr__(self):
            return f"<{self.name}>"

    class Expr(Obj):
        pass

    def naming_world(primary):
        it = Interp(repo, load_classes(repo), primary=primary)
        it.overrides["compute_signature"] = _PyCall(lambda objs, tag: "h" + repr(([repr(o) for o in objs], tag)).encode().hex())
        it.overrides["naming.compute_signature"] = it.overrides["compute_signature"]
        it.overrides["ufl.core.expr.Expr"] = Expr
        return it

    fa, fb = Obj("form a"), Obj("form b")
    e1 = (Expr("expr 1"), "pts")
    base = {"integral_name": dict(original_form=fa, integral_type="cell", form_id=0, subdomain_id=(1,), prefix="p", integral_id=0),
            "form_name": dict(original_form=fa, form_id=0, prefix="p"),
            "expression_name": dict(expression=e1, prefix="p", expression_id=0)}
    other = {"original_form": fb, "integral_type": "exterior_facet", "form_id": 1, "subdomain_id": (2,), "prefix": "q", "integral_id": 1, "expression": (Expr("expr 2"), "pts"),
             "expression_id": 1}
    for fn, kw in base.items():
        g = nm_mod.func(fn)
        res.functions.add(g.key)
        if set(g.params) != set(kw):
            unknown = sorted(set(g.params) - set(kw))
            if unknown:
                raise AnalysisError(f"{fn}: parameters {unknown} not understood")

        def call(k_, _g=g):
            it = naming_world(NAMING)
            return it.call_f(_g, [], {p_: k_[p_] for p_ in _g.params if p_ in k_})
        try:
            n0 = call(kw)
        except Raised as e:
            res.ob(f"{g.key}:runs")
            res.fail(f"{g.key}:runs", f"{fn} raises ({e.what})", nm_mod.line(g.node))
            continue
        key = f"{g.key}:prefix"
        res.ob(key)
        kind = fn.split("_")[0]
        if not (isinstance(n0, str) and n0.startswith(kind + "_") and n0.isidentifier()):
            res.fail(key, f"{fn} returns `{str(n0)[:50]}`, not an identifier of the `{kind}_` family", nm_mod.line(g.node))
        for p_ in g.params:
            key = f"{g.key}:depends-on:{p_}"
            res.ob(key)
            try:
                n1 = call({**kw, p_: other[p_]})
            except Raised as e:
                res.fail(key, f"{fn} raises ({e.what})", nm_mod.line(g.node))
                continue
            if n1 == n0:
                res.fail(key, f"{fn} gives the same name when only `{p_}` differs ({kw[p_]!r} vs {other[p_]!r}): two objects of one module (or of two modules with "
                         "different prefixes) share a C name", nm_mod.line(g.node))
    # ---- compute_ir with the real naming functions
    ci = rep.func("compute_ir")
    res.functions.add(ci.key)
    key = f"{ci.key}:distinct-names"
    res.ob(key)
    it = naming_world("ffcx.ir.representation")
    it.overrides["logger"] = Node("Logger", info=_PyCall(lambda *a: None), debug=_PyCall(lambda *a: None))
    seen = {"integral_names": None, "per_form": []}

    def cii(fd, i, els, inames, opts, vis):
        seen["integral_names"] = dict(inames)
        seen["per_form"].append(i)
        return []
    it.overrides["_compute_integral_ir"] = _PyCall(cii)
    it.overrides["_compute_form_ir"] = _PyCall(lambda fd, i, prefix, fnames, inames, idom, onames, part: Node("FormIR", name=fnames[i], name_from_uflfile=f"form_{prefix}_{i}"))
    it.overrides["_compute_expression_ir"] = _PyCall(lambda e, i, prefix, an, opts, vis, onames: Node("ExpressionIR", name=f"e{i}", name_from_uflfile=f"expression_{prefix}_{i}"))
    it.overrides["TensorPart.from_str"] = _PyCall(lambda s_: "TensorPart.full")
    it.overrides["DataIR"] = _PyCall(lambda **k: Node("DataIR", **k))
    it.overrides["itertools.chain"] = _PyCall(lambda *a: [x for l_ in a for x in l_])
    same = Obj("form with one signature")  # two list entries with an equal signature (repr) but different positions
    same2 = Obj("form with one signature")
    groups = [Node("IntegralData", integral_type="cell", subdomain_id=(1,), domain="mesh1"), Node("IntegralData", integral_type="cell", subdomain_id=(1,), domain="mesh2"),
              Node("IntegralData", integral_type="exterior_facet", subdomain_id=(1,), domain="mesh1")]
    fds = [Node("FormData", original_form=same, integral_data=list(groups)), Node("FormData", original_form=same2, integral_data=list(groups[:1]))]
    an = Node("UFLData", form_data=fds, expressions=[], element_numbers={}, unique_elements=[])
    try:
        out = it.call_f(ci, [an, {}, "p", {"part": "full", "scalar_type": "float64"}, False])
        inames = seen["integral_names"] or {}
        want_keys = {(0, 0), (0, 1), (0, 2), (1, 0)}
        if set(inames) != want_keys:
            res.fail(key, f"integral names are computed for {sorted(inames)}, expected one per (form, integral group) = {sorted(want_keys)}", rep.line(ci.node))
        elif len(set(inames.values())) != len(inames):
            dup = [k_ for k_ in inames if list(inames.values()).count(inames[k_]) > 1]
            res.fail(key, f"integral groups {dup} get the same name: two groups of one form with equal type and subdomain id on different meshes (f1*dx(mesh1) + f2*dx(mesh2)), or "
                     "the groups of two forms with equal signature, define one C object twice", rep.line(ci.node), props=("C13", "C19", "C06"))
        fnames = [x.f["name"] for x in out.f["forms"]]
        if len(set(fnames)) != 2:
            res.fail(key, f"two forms with the same signature in one module are both named {fnames[0]}", rep.line(ci.node))
    except Raised as e:
        res.fail(key, f"compute_ir raises ({e.what}) on two forms with three / one integral groups", rep.line(ci.node))
    # ---- expression names inside _compute_expression_ir
    g = rep.func("_compute_expression_ir")
    res.functions.add(g.key)
    key = f"{g.key}:name:per-object-index"
    res.ob(key)
    S = IRSamples(repo)
    names = []
    try:
        for index in (0, 1):
            it2, env = S.expression(g)
            it2.overrides["naming.expression_name"] = _PyCall(lambda e, prefix, i=None: f"expression[{e[0].f.get('name') if hasattr(e[0], 'f') else e[0]}|{prefix}|{i}]")
            env["index"] = index
            names.append(value_of(it2, g, env, key="name"))
        if names[0] == names[1] or "|0]" not in str(names[0]):
            res.fail(key, f"two expressions of one module with equal signature are named {names}: the position of the expression must be part of its name "
                     "(compile_expressions([(grad(f), pts), (grad(g), pts)]) would define one C object twice)", rep.line(g.node))
    except Raised as e:
        res.fail(key, f"_compute_expression_ir raises ({e.what}) while naming", rep.line(g.node))


MIN_HEX = 10  # 40 bits


@rule(
    "DIGEST-WIDTH",
    ["C19", "C13"],
    "a truncated digest used as a component of generated identifiers keeps at least 40 bits (10 hex "
    "digits) unless the construction site detects duplicates; QuadratureRule.id() feeds weights_/sp_/sv_/"
    "FE..._Q names of different rules inside one kernel",
    min_instances=1,
)
def digest_width(repo, res):
    for m in repo.modules.values():
        for f in m.funcs.values():
            for n in walk_no_nested(f.node):
                if isinstance(n, ast.Subscript) and isinstance(n.slice, ast.Slice) and "hexdigest()" in ast.unparse(n.value):
                    key = f"{f.key}:truncated-digest"
                    res.ob(key)
                    res.functions.add(f.key)
                    lo, hi = n.slice.lower, n.slice.upper
                    width = None
                    try:
                        if lo is not None and hi is None:
                            v = ast.literal_eval(lo)
                            width = -v if v < 0 else None
                        elif lo is None and hi is not None:
                            v = ast.literal_eval(hi)
                            width = v if v > 0 else None
                    except Exception:
                        width = None
                    if width is None:
                        res.notes.append(f"{key}: slice `{ast.unparse(n.slice)}` not understood")
                        continue
                    if width < MIN_HEX:
                        res.fail(key, f"{f.key} keeps only {width} hex digits ({4 * width} bits) of a digest used in "
                                 "generated identifiers: distinct quadrature rules collide (triangle default degree 15 "
                                 "and 26 both end in b76 -> duplicate `weights_b76`)", m.line(n))


@rule(
    "RULE-SCOPED-NAMES",
    ["C19", "C11", "C10"],
    "identifier families that are instantiated once per quadrature rule at kernel scope carry the rule's "
    "id: the piecewise (sp_) and varying (sv_) temporaries of the integral generator, the weights table "
    "and the element-table names; temporaries cached across rules (fw) are keyed by the rule",
    min_instances=5,
)
def rule_scoped_names(repo, res):
    ig = repo.mod("ffcx.codegeneration.integral_generator")
    from ..absint import Interp as _I0, Node as _N0, Raised as _R0, _PyCall as _PC0
    from ..lnodes_model import load_classes as _lc0

    for q in ("IntegralGenerator.generate_piecewise_partition", "IntegralGenerator.generate_varying_partition"):
        f = ig.func(q)
        res.functions.add(f.key)
        key = f"{f.key}:name-has-rule-id"
        res.ob(key)
        # interpreted for two rules of one kernel: the base name handed to generate_partition (the temporaries are numbered <base>_0, <base>_1, ... from
        # zero for every call) must differ between the rules
        bases = []
        try:
            for rid in ("r1", "r2"):
                it0 = _I0(repo, _lc0(repo), primary="ffcx.codegeneration.integral_generator")
                it0.obj_classes = {"IntegralGenerator": "ffcx.codegeneration.integral_generator"}
                rl = _N0("QuadratureRule", id=_PC0(lambda _r=rid: _r))
                got = []
                gen = _N0("IntegralGenerator", ir=_N0("IntegralIR", expression=_N0("ExpressionIR", integrand={("triangle", rl): {"factorization": "F"}})),
                          generate_partition=_PC0(lambda sym, F, mode, rule_, dom, _g=got: _g.append(sym) or ([], [])))
                it0.call_f(f, [gen, rl, "triangle"])
                if len(got) != 1 or not isinstance(got[0], _N0) or "name" not in got[0].f:
                    raise AnalysisError(f"{q}: generate_partition is not called once with a symbol")
                bases.append(got[0].f["name"])
        except _R0 as e:
            res.fail(key, f"{q} raises ({e.what}) on a sample rule", ig.line(f.node))
            continue
        if bases[0] == bases[1]:
            res.fail(key, f"{q} names its temporaries `{bases[0]}_<n>` for two different quadrature rules of one kernel: the counter restarts for every rule, so a "
                     "kernel with two rules (dx(degree=2) + dx(degree=4)) declares the same identifier twice", ig.line(f.node))
    f = ig.func("IntegralGenerator.generate_block_parts")
    key = f"{f.key}:fw-cache-key"
    res.ob(key)
    src = ast.unparse(f.node)
    m = re.search(r"(\w+) = \(([^\n]*)\)\n\s+\w+, \w+ = self\.get_temp_symbol\('fw', \1\)", src)
    if not m or f.params[1] not in m.group(2) or "factor_index" not in m.group(2):
        res.fail(key, "the fw temporaries are not cached per (quadrature rule, factor): a value computed with one rule's weights is "
                 "reused for another rule", ig.line(f.node), props=("C11", "C19"))
    sm = repo.mod("ffcx.codegeneration.symbols")
    f = sm.func("FFCXBackendSymbols.weights_table")
    key = f"{f.key}:name-has-rule-id"
    res.ob(key)
    from ..absint import Interp as _I, Node as _N, Raised as _R, _PyCall as _PC
    from ..lnodes_model import load_classes as _lc

    from ..npmodel import NDArr as _NDArr, install_arrays as _ia

    it_ = _ia(_I(repo, _lc(repo), primary="ffcx.codegeneration.symbols"))
    it_.obj_classes["FFCXBackendSymbols"] = "ffcx.codegeneration.symbols"
    symbols = _N("FFCXBackendSymbols", quadrature_weight_tables={})
    # two rules of one kernel with the same weights at different points (vertex scheme and the degree-2 rule of a triangle: 3 x 1/6 each)
    w_ = [1.0 / 6] * 3
    r0 = _N("QuadratureRule", id=_PC(lambda: "aaaa000000"), weights=_NDArr(list(w_), (3,)), points=_NDArr([[0.0, 0.0], [1.0, 0.0], [0.0, 1.0]], (3, 2)))
    r1 = _N("QuadratureRule", id=_PC(lambda: "bbbb111111"), weights=_NDArr(list(w_), (3,)), points=_NDArr([[1.0 / 6, 1.0 / 6], [1.0 / 6, 2.0 / 3], [2.0 / 3, 1.0 / 6]], (3, 2)))
    try:
        s0 = it_.call_f(f, [symbols, r0])
        s1 = it_.call_f(f, [symbols, r1])
        s0b = it_.call_f(f, [symbols, r0])
        n0, n1, n0b = s0.f.get("name"), s1.f.get("name"), s0b.f.get("name")
    except _R as e:
        n0 = n1 = n0b = f"raises {e.what}"
    if not (isinstance(n0, str) and "aaaa000000" in n0 and "bbbb111111" in str(n1) and n0 != n1 and n0 == n0b):
        res.fail(key, f"weights tables of two rules are named {n0!r} and {n1!r} (again: {n0b!r}): the name must contain the rule id and be stable per rule", sm.line(f.node))
    et = repo.mod("ffcx.ir.elementtables")
    f = et.func("generate_psi_table_name")
    key = f"{f.key}:name-has-rule-id"
    res.ob(key)
    if not re.search(rf"_Q\{{{f.params[0]}\.id\(\)\}}", ast.unparse(f.node)):
        res.fail(key, "element table names do not end in the quadrature rule id: tables of different rules collide", et.line(f.node))
    # every table reference created while building the tables of ONE rule is named with that rule's id
    b = et.func("build_optimized_tables")
    res.functions.add(b.key)
    rp = "quadrature_rule"
    if rp not in b.params:
        raise AnalysisError("build_optimized_tables has no quadrature_rule parameter")
    sl = Slicer(b.node)
    ctors = [c for c in calls_in(b.node) if (call_name(c) or "") == "UniqueTableReferenceT"]
    if len(ctors) < 2:
        raise AnalysisError("build_optimized_tables: UniqueTableReferenceT constructions not found")
    for n_, c in enumerate(ctors):
        key = f"{b.key}:table-name-has-rule-id:{n_}"
        res.ob(key)
        nm = kwarg(c, "name") if kwarg(c, "name") is not None else (c.args[0] if c.args else None)
        if nm is None:
            res.fail(key, "table reference without a name", et.line(c))
            continue
        t = sl.text(nm)
        scoped = re.search(rf"\{{{rp}\.id\(\)\}}", t) or re.search(rf"generate_psi_table_name\(\s*{rp}\b", t)
        if not scoped:
            res.fail(key, f"table `{ast.unparse(nm)}` is created per quadrature rule (its values are tabulated at this rule's points) but its name does not "
                     "contain the rule id and the counter restarts for every rule: with sum_factorization=True and two rules in one integral "
                     "(u*v*dx(degree=2) + inner(grad(u), grad(v))*dx(degree=4), Q2 tensor-product element) both rules' factor tables are called "
                     "FE_TF0.. and the later one replaces the earlier one", et.line(c), props=("C10", "C19", "C11"))
    # name components all present
    key = f"{f.key}:components"
    res.ob(key)
    src = ast.unparse(f.node)
    for comp in ("FE{element_counter:d}", "_C{flat_component:d}", "'_D' + ''.join", "averaged]", "entity_type]"):
        if comp not in src:
            res.fail(key, f"table name lacks the component `{comp}`: tables of different terminals share a name", et.line(f.node))


@rule(
    "ID-EQ-COHERENCE",
    ["C19", "C13", "C11"],
    "QuadratureRule.id() names every rule-dependent identifier (weights_<id>, tables _Q<id>, sp_/sv_ temporaries) while "
    "__eq__ decides which rules are kept apart in a kernel: the digest behind id() must consume every field __eq__ compares "
    "(points and weights), otherwise two rules that differ only in the unhashed field are both generated under one name "
    "(redefinition in C, or one rule's tables replacing the other's)",
    min_instances=2,
)
def id_eq_coherence(repo, res):
    """QuadratureRule interpreted (constructor, __hash__, __eq__, id) on pairs of sample rules with a collision-free model of hashlib."""
    import hashlib as _hl

    from ..absint import Interp, Node, PyNative, Raised, _PyCall
    from ..lnodes_model import load_classes
    from ..npmodel import NDArr, install_arrays

    RU = "ffcx.ir.representationutils"
    m = repo.mod(RU)
    fn = {n: m.func(f"QuadratureRule.{n}") for n in ("__init__", "__hash__", "__eq__", "id")}
    res.functions.update(f.key for f in fn.values())
    loc = m.line(fn["id"].node)

    class _Sha(PyNative):
        def __init__(self, data=None):
            self.h = _hl.sha1()
            if data is not None:
                self.update(data)

        def update(self, d):
            vals = d.flat() if isinstance(d, NDArr) else (list(d) if isinstance(d, (list, tuple)) else [d])
            self.h.update(repr([float(v).hex() for v in vals]).encode())  # exact content of the doubles, like the raw bytes

        def hexdigest(self):
            return self.h.hexdigest()

    def tol_close(a, b, rtol=1e-05, atol=1e-08, **k):
        fa = a.flat() if isinstance(a, NDArr) else list(a)
        fb = b.flat() if isinstance(b, NDArr) else list(b)
        if len(fa) != len(fb):
            raise Raised("ValueError: operands could not be broadcast together")
        return all(abs(x - y) <= atol + rtol * abs(y) for x, y in zip(fa, fb))

    def np_round(a, decimals=0):
        if isinstance(a, NDArr):
            return NDArr([round(float(v), decimals) for v in a.flat()]).reshape(a.shape)
        return NDArr([round(float(v), decimals) for v in a])

    def world():
        it = install_arrays(Interp(repo, load_classes(repo), primary=RU))
        it.obj_classes["QuadratureRule"] = RU
        for nm in ("sha1", "sha256", "md5", "sha512", "blake2b"):
            it.overrides[f"hashlib.{nm}"] = _PyCall(lambda d=None, **k: _Sha(d))
        it.overrides["np.allclose"] = _PyCall(tol_close)
        it.overrides["np.round"] = _PyCall(np_round)
        it.overrides["np.around"] = _PyCall(np_round)
        return it

    def make(it, pts, wts):
        r = Node("QuadratureRule")
        it.call_f(fn["__init__"], [r, NDArr(pts), NDArr(wts)])
        return r

    base_p, base_w = [[0.25, 0.5], [0.125, 0.625]], [0.3, 0.2]
    eps = 2.0 ** -54
    pairs = [
        ("identical rules", (base_p, base_w), (base_p, base_w), True),
        ("same points, different weights (two custom rules / the vertex scheme next to a Gauss rule)", (base_p, base_w), (base_p, [0.25, 0.25]), False),
        ("points that differ in the last bit (default(1) and Gauss-Jacobi(1) on a triangle agree up to round-off)", (base_p, base_w), ([[0.25 + eps, 0.5], [0.125, 0.625]], base_w), False),
        ("weights that differ in the last bit", (base_p, base_w), (base_p, [0.3 + eps * 2, 0.2]), False),
        ("different points", (base_p, base_w), ([[0.5, 0.25], [0.125, 0.625]], base_w), False),
    ]
    for label, a, b, same in pairs:
        key = f"{fn['id'].key}:{label.split(' (')[0]}"
        res.ob(key)
        it = world()
        try:
            ra, rb = make(it, *a), make(it, *b)
            ha, hb = it.call_f(fn["__hash__"], [ra]), it.call_f(fn["__hash__"], [rb])
            ia, ib = it.call_f(fn["id"], [ra]), it.call_f(fn["id"], [rb])
            eq = bool(it.call_f(fn["__eq__"], [ra, rb]))
        except Raised as e:
            res.fail(key, f"QuadratureRule raises ({e.what}) on {label}", loc)
            continue
        one_key = (ha == hb) and eq  # one dictionary entry <=> equal hash and __eq__
        if same:
            if not one_key or ia != ib:
                res.fail(key, f"two rules with identical points and weights are {'two dictionary keys' if not one_key else 'one key'} with ids {ia} / {ib}: the same rule must "
                         "always get the same id (names would change between compilations)", loc)
        else:
            if not one_key and ia == ib:
                res.fail(key, f"{label}: the two rules are different dictionary keys of the integrand map (hash {'differs' if ha != hb else 'equal'}, __eq__ {eq}), so both are "
                         f"generated in one kernel, but id() is {ia} for both: weights_{ia}, the _Q{ia} tables and the sp_{ia}_k temporaries are declared twice", loc)
            if one_key:
                res.notes.append(f"{label}: treated as one rule (equal hash and __eq__)")


@rule(
    "SIG-RENUMBERING",
    ["C13", "C12", "C14"],
    "compute_signature interpreted on an expression whose terminals live on two meshes, under several creation histories (the meshes' "
    "process-wide ufl ids in either order and across a power of ten, so that numeric and lexicographic order disagree) and hash "
    "seeds: the renumbering handed to UFL's expression signature - coefficients, constants, arguments and meshes numbered by where the "
    "expression meets them - must be the same mapping in every history; anything ordered by ufl_id / repr / a set is not",
    min_instances=3,
)
def sig_renumbering(repo, res):
    from ..absint import Interp, Node, PyNative, Raised, _PyCall
    from ..lnodes_model import load_classes
    from ..npmodel import NDArr, install_arrays

    m = repo.mod(NAMING)
    cs = m.func("compute_signature")
    res.functions.add(cs.key)
    loc = m.line(cs.node)

    class Mesh(PyNative):
        def __init__(self, role, uid):
            self.role, self.uid = role, uid

        def ufl_id(self):
            return self.uid

        def _ufl_sort_key_(self):
            return ("Mesh", 2, self.uid)  # UFL: type name, dimensions, then the global counter

        def _ufl_signature_data_(self, renumbering):
            return ("Mesh", renumbering[self])

        def __repr__(self):
            return f"Mesh(blocked element (P1, (2,)), {self.uid})"

        __str__ = __repr__

        def __hash__(self):
            return hash(("Mesh", self.uid))

        def __eq__(self, o):
            return isinstance(o, Mesh) and o.uid == self.uid

        def __lt__(self, o):
            return self._ufl_sort_key_() < o._ufl_sort_key_()

    class Term(PyNative):
        def __init__(self, kind, name, mesh):
            self.kind, self.name, self.mesh = kind, name, mesh

        def ufl_element(self):
            return _PlainElementStandIn()

        def __repr__(self):
            return f"{self.kind}({self.name})"

        def __hash__(self):
            return hash((self.kind, self.name))

        def __eq__(self, o):
            return isinstance(o, Term) and (o.kind, o.name) == (self.kind, self.name)

    class GeometricQuantity(Term):
        pass

    def run(ids):
        A, B = Mesh("A", ids["A"]), Mesh("B", ids["B"])
        # expression order: f (on B), x (geometry of A), g (on A), constant k (on B)
        f_, x_, g_, k_ = Term("Coefficient", "f", B), GeometricQuantity("SpatialCoordinate", "x", A), Term("Coefficient", "g", A), Term("Constant", "k", B)
        expr = Node("Expr", name="f*x*g*k", terminals=[f_, x_, g_, k_])
        it = element_world(install_arrays(Interp(repo, load_classes(repo), primary=NAMING)))
        it.extra_bases["Expr"] = ("Expr",)
        seen = {}

        def domains_of(e_):
            if isinstance(e_, Term):
                return [e_.mesh]
            # of a whole expression: UFL's canonical order, which starts from a set and sorts by _ufl_sort_key_ (ufl ids)
            return sorted({t.mesh for t in e_.f["terminals"]}, key=lambda d: d._ufl_sort_key_())
        for pre in ("ufl.algorithms.", "ufl.algorithms.analysis."):
            it.overrides[pre + "extract_coefficients"] = _PyCall(lambda e_: [t for t in e_.f["terminals"] if t.kind == "Coefficient"])
            it.overrides[pre + "extract_constants"] = _PyCall(lambda e_: [t for t in e_.f["terminals"] if t.kind == "Constant"])
            it.overrides[pre + "extract_arguments"] = _PyCall(lambda e_: [])
        it.overrides["ufl.algorithms.analysis.unique_tuple"] = _PyCall(lambda d: tuple(dict.fromkeys(d)))
        it.overrides["ufl.domain.extract_domains"] = _PyCall(domains_of)
        it.overrides["ufl.domain.extract_unique_domain"] = _PyCall(lambda e_: domains_of(e_)[0])
        it.overrides["ufl.corealg.traversal.unique_pre_traversal"] = _PyCall(lambda e_: [e_] + list(e_.f["terminals"]))
        it.overrides["ufl.Mesh"] = "Mesh"
        it.overrides["ufl.classes.GeometricQuantity"] = "GeometricQuantity"

        def expr_sig(e_, rn):
            seen["rn"] = {(k.role if isinstance(k, Mesh) else repr(k)): v for k, v in rn.items()}
            return "EXPRSIG" + repr(sorted(seen["rn"].items()))
        it.overrides["ufl.algorithms.signature.compute_expression_signature"] = _PyCall(expr_sig)
        it.overrides["ffcx.__version__"] = "0.0"
        it.overrides["ffcx.codegeneration.get_signature"] = _PyCall(lambda: "HDR")
        it.overrides["hashlib.sha1"] = _PyCall(lambda d=b"", **k: Node("Sha", hexdigest=_PyCall(lambda: "H" + repr(d))))
        pts = NDArr([[0.25, 0.5]], (1, 2))
        out = it.call_f(cs, [[(expr, pts)], "tag"])
        return out, seen.get("rn")

    histories = {"A created first": {"A": 5, "B": 9}, "B created first": {"A": 9, "B": 5}, "ids 9 and 10": {"A": 10, "B": 9}, "ids 99 and 100": {"A": 99, "B": 100},
                 "ids 10 and 9 swapped": {"A": 9, "B": 10}}
    results = {}
    key = f"{cs.key}:history-independent-renumbering"
    res.ob(key)
    for label, ids in histories.items():
        try:
            results[label] = run(ids)
        except Raised as e:
            res.fail(key, f"compute_signature raises ({e.what}) on a two-mesh expression ({label})", loc)
            return
    first = next(iter(results))
    for label, (sig, rn) in results.items():
        if rn != results[first][1] or sig != results[first][0]:
            res.fail(key, f"an expression f*x*g*k with f, k on mesh B and x, g on mesh A is renumbered {rn} when the meshes' ufl ids are {histories[label]}, but "
                     f"{results[first][1]} when they are {histories[first]}: the numbering of the domains depends on which mesh was created first (ufl_id, repr or "
                     "UFL's sort key), so module and object names differ between processes building the same expression", loc)
            break
    key = f"{cs.key}:renumbering-by-first-occurrence"
    res.ob(key)
    rn = results[first][1] or {}
    want = {"Coefficient(f)": 0, "Coefficient(g)": 1, "Constant(k)": 0, "B": 0, "A": 1}
    if rn != want:
        res.fail(key, f"renumbering is {rn}, expected {want}: coefficients and constants by position, meshes in the order coefficients, arguments, geometric quantities "
                 "(expression order) and constants meet them", loc)
    key = f"{cs.key}:every-terminal-renumbered"
    res.ob(key)
    if not {"A", "B"} <= set(rn):
        res.fail(key, f"not every mesh of the expression is renumbered ({rn}): an unrenumbered mesh enters the signature with its process-wide id", loc)
