"""The argument-factorisation driver interpreted on sample scalar graphs (C01, C04, C09).

FACT-DRIVER  ffcx.ir.analysis.factorization.compute_argument_factorization (with build_argument_indices, graph_insert, the
             singledispatch `handler` and its registrations, ExpressionGraph and strip_modified_terminal) is interpreted
             from source on scalar expression graphs in the format rebuild_with_scalar_subexpressions produces (post-order
             nodes, out_edges = operand indices, target nodes with component lists).  UFL expressions are modelled by
             small expression objects that carry their meaning as a polynomial / rational normal form in the terminal
             symbols; `+ * /`, Conj, conditional and as_ufl build such objects.  Specification, written independently:
               - the first len(AV) nodes of F are the modified arguments in the canonical order (argument number first),
                 every other node is argument-free;
               - for every component c:  sum over the F nodes listing c of  meaning(node) * prod(AV[i] for i in its target
                 key recorded at the same position)  ==  meaning of the integrand's component c  (the statement in the
                 function's own docstring), with the conditional under both truth values;
               - every target key lists argument *positions* in ascending order with one argument per form rank, number
                 0 (test function) first: the IR reads the key positionally as (row, column);
               - dependencies of F point at the operands' nodes (every operand of a non-terminal node is a node of F);
               - rank 0: each component's single factor is the node of the target expression itself, key ().
"""

from __future__ import annotations

from fractions import Fraction as Fr

from ..absint import Interp, Node, PyNative, Raised, Rat, _PyCall
from ..lnodes_model import load_classes
from ..model import AnalysisError
from ..registry import rule
from .pipeline import _rat_conj, _show

FACT = "ffcx.ir.analysis.factorization"
GRAPH = "ffcx.ir.analysis.graph"
MT = "ffcx.ir.analysis.modified_terminals"


class Expr(PyNative):
    """A UFL expression stand-in: structure (class, operands) and meaning."""

    _ufl_is_terminal_ = False
    _ufl_is_terminal_modifier_ = False
    ufl_operands: tuple = ()

    def __init__(self, meaning, operands=(), label=None):
        self.meaning = meaning
        self.ufl_operands = tuple(operands)
        self.label = label

    def _key(self):
        return (type(self).__name__, self.label, tuple(o._key() for o in self.ufl_operands))

    def __hash__(self):
        return hash(self._key())

    def __eq__(self, o):
        return isinstance(o, Expr) and self._key() == o._key()

    def __repr__(self):
        return f"{type(self).__name__}({self.label or ', '.join(map(repr, self.ufl_operands))})"

    def __add__(self, o):
        return Sum(self, _as(o))

    def __radd__(self, o):
        return Sum(_as(o), self)

    def __mul__(self, o):
        return Product(self, _as(o))

    def __rmul__(self, o):
        return Product(_as(o), self)

    def __truediv__(self, o):
        return Division(self, _as(o))


def _as(x):
    if isinstance(x, Expr):
        return x
    if isinstance(x, (int, float, Fr)):
        return Zero() if x == 0 else FloatValue(x)
    raise AnalysisError(f"factorisation sample: cannot lift {type(x).__name__} to an expression")


class Terminal(Expr):
    _ufl_is_terminal_ = True


class Coefficient(Terminal):
    def __init__(self, name):
        super().__init__(Rat.var(name), (), name)


class Constant(Terminal):
    """a ufl.Constant: complex-valued in complex mode, like a coefficient, but of another class"""

    def __init__(self, name):
        super().__init__(Rat.var(name), (), name)


class GeometricQuantity(Terminal):
    """a real-valued geometric terminal (its symbol starts with "u": its own conjugate)"""

    def __init__(self, name):
        super().__init__(Rat.var("ugeo_" + name), (), name)


class FloatValue(Terminal):
    def __init__(self, v):
        super().__init__(Rat.const(Fr(v)), (), f"lit{Fr(v)}")


class ComplexValue(Terminal):
    def __init__(self, re, im):
        from ..absint import IMAG
        super().__init__(Rat.const(Fr(re)) + Rat.const(Fr(im)) * Rat.var(IMAG), (), f"lit({re}+{im}j)")


class Zero(Terminal):
    def __init__(self):
        super().__init__(Rat.const(0), (), "zero")


class Argument(Terminal):
    def __init__(self, number, part=None):
        super().__init__(Rat.var(f"ARG{number}"), (), f"arg{number}")
        self._number, self._part = number, part

    def number(self):
        return self._number

    def part(self):
        return self._part


class Indexed(Expr):
    """A modified argument: terminal modifiers around an Argument, with the fields analyse_modified_terminal would report."""

    _ufl_is_terminal_modifier_ = True

    def __init__(self, arg, name, **mt):
        super().__init__(Rat.var("u:" + name), (arg,), name)  # symbols starting with "u" are real-valued under conjugation (basis functions)
        self.sym = "u:" + name
        self.mt = dict(reference_value=True, flat_component=0, global_derivatives=(), local_derivatives=(), averaged=None, restriction=None)
        self.mt.update(mt)


class Sum(Expr):
    def __init__(self, a, b):
        super().__init__(a.meaning + b.meaning, (a, b))


class Product(Expr):
    def __init__(self, a, b):
        super().__init__(a.meaning * b.meaning, (a, b))


class Division(Expr):
    def __init__(self, a, b):
        super().__init__(a.meaning / b.meaning, (a, b))


class Conj(Expr):
    def __init__(self, a):
        super().__init__(_rat_conj(a.meaning), (a,))


class Condition(Expr):
    """The condition operand; its meaning is the indicator c of the condition being true (c*c = c is never needed: every use is linear)."""

    def __init__(self, name="c"):
        super().__init__(Rat.var(name), (), name)

    _ufl_is_terminal_ = True


class Conditional(Expr):
    def __init__(self, c, t, f):
        super().__init__(c.meaning * t.meaning + (Rat.const(1) - c.meaning) * f.meaning, (c, t, f))


class MathFunction(Expr):
    """sin(.) etc. of an argument-free operand."""

    def __init__(self, a):
        super().__init__(Rat.var(f"fn[{_show(a.meaning)}]"), (a,))


def _traversals(it):
    """UFL's generic traversal helpers on the sample expressions"""
    def post(e, seen=None):
        seen = seen if seen is not None else []
        for o in e.ufl_operands:
            post(o, seen)
        if e not in seen:
            seen.append(e)
        return seen

    def terminals(e):
        return [x for x in post(e) if x._ufl_is_terminal_]
    for pre in ("", "ufl.corealg.traversal."):
        it.overrides[pre + "traverse_unique_terminals"] = _PyCall(terminals)
        it.overrides[pre + "unique_post_traversal"] = _PyCall(lambda e: post(e))
        it.overrides[pre + "unique_pre_traversal"] = _PyCall(lambda e: list(reversed(post(e))))
        it.overrides[pre + "traverse_terminals"] = _PyCall(terminals)
    for pre in ("", "ufl.algorithms.", "ufl.algorithms.analysis."):
        it.overrides[pre + "extract_coefficients"] = _PyCall(lambda e: [x for x in terminals(e) if isinstance(x, Coefficient)])
        it.overrides[pre + "extract_arguments"] = _PyCall(lambda e: [x for x in terminals(e) if isinstance(x, Argument)])


def linearise(roots):
    """post-order scalar graph of the given root expressions (one per component; a root may serve several components)"""
    nodes, out_edges, e2i = {}, {}, {}

    def visit(e):
        if e in e2i:
            return e2i[e]
        if e._ufl_is_terminal_modifier_ and isinstance(e, Indexed):
            deps = []  # modified terminals are leaves of the scalar graph
        else:
            deps = [visit(o) for o in e.ufl_operands]
        i = len(nodes)
        nodes[i] = {"expression": e}
        out_edges[i] = deps
        e2i[e] = i
        return i

    for comp, r in enumerate(roots):
        i = visit(r)
        nodes[i]["target"] = True
        nodes[i].setdefault("component", []).append(comp)
    return nodes, out_edges, e2i


@rule(
    "FACT-DRIVER",
    ["C01", "C04", "C09", "C12", "C15", "C19"],
    "compute_argument_factorization (driver, argument ordering, graph_insert, dispatch of the handlers, target / component "
    "bookkeeping, dependencies) interpreted on sample scalar graphs whose expressions carry a polynomial meaning: per component, "
    "sum over target nodes of factor * product of the arguments of the key recorded at the same position equals the integrand; "
    "arguments come first in canonical order and keys list argument positions in form-argument order",
    min_instances=8,
)
def fact_driver(repo, res):
    """C01/C04/C09 for every finding; the module-state obligation carries its own properties (C12, C15)."""
    _fact_driver(repo, res)
    for f_ in res.findings:
        if not f_.props:
            f_.props = ("C01", "C04", "C09")


def _fact_driver(repo, res):
    m = repo.mod(FACT)
    f = m.func("compute_argument_factorization")
    res.functions.add(f.key)
    for nm in ("build_argument_indices", "graph_insert", "handler", "handle_sum", "handle_product", "handle_division", "handle_conj", "handle_conditional"):
        res.functions.add(m.func(nm).key)
    gm = repo.mod(GRAPH)
    for nm in ("ExpressionGraph.__init__", "ExpressionGraph.add_node", "ExpressionGraph.add_edge", "ExpressionGraph.number_of_nodes"):
        res.functions.add(gm.func(nm).key)
    mtm = repo.mod(MT)
    res.functions.add(mtm.func("strip_modified_terminal").key)
    res.functions.add(mtm.func("ModifiedTerminal.argument_ordering_key").key)
    loc = m.line(f.node)

    def world():
        it = Interp(repo, load_classes(repo), primary=FACT)
        it.obj_classes = {"ExpressionGraph": GRAPH, "ModifiedTerminal": MT}

        def new_graph():
            g = Node("ExpressionGraph")
            it.call_f(gm.func("ExpressionGraph.__init__"), [g])
            return g
        it.overrides["ExpressionGraph"] = _PyCall(new_graph)
        it.overrides["Conj"] = _PyCall(lambda x: Conj(x))
        it.overrides["conditional"] = _PyCall(lambda c, t, f_: Conditional(c, _as(t), _as(f_)))
        it.overrides["as_ufl"] = _PyCall(_as)
        it.overrides["logger"] = Node("Logger", info=_PyCall(lambda *a: None), debug=_PyCall(lambda *a: None))
        _traversals(it)

        def analyse(e):
            t = e
            while not t._ufl_is_terminal_:
                t = t.ufl_operands[0]
            fields = dict(e.mt) if isinstance(e, Indexed) else dict(reference_value=False, flat_component=0, global_derivatives=(), local_derivatives=(), averaged=None, restriction=None)
            return Node("ModifiedTerminal", terminal=t, **fields)
        it.overrides["analyse_modified_terminal"] = _PyCall(analyse)
        return it, new_graph

    import ast as _ast
    import copy as _copy

    fm_ = repo.mod(FACT)
    module_containers = [n_ for n_, v_ in fm_.assigns.items() if isinstance(v_, (_ast.Dict, _ast.List, _ast.Set))
                         or (isinstance(v_, _ast.Call) and getattr(v_.func, "id", "") in ("dict", "list", "set"))]

    def run(roots, rank, label="?"):
        it, new_graph = world()
        nodes, out_edges, e2i = linearise(roots)
        S = new_graph()
        S.f["nodes"], S.f["out_edges"], S.f["e2i"] = nodes, out_edges, e2i
        S.f["in_edges"] = {i: [] for i in nodes}
        # module-level containers of the factorisation module (shared by every request of the process) as they are before the request
        before = {}
        for n_ in module_containers:
            try:
                before[n_] = _copy.copy(it.module_value(FACT, n_))
            except AnalysisError:
                pass
        try:
            F = it.call_f(f, [S, rank])
        finally:
            for n_, b_ in before.items():
                now = it.module_value(FACT, n_)
                if len(now) != len(b_):
                    k_ = f"{f.key}:module-state-unchanged:{n_}"
                    res.ob(k_)
                    res.fail(k_, f"after the request `{label}` the module-level container `{n_}` of {FACT} holds {len(now)} entries instead of {len(b_)}: it is shared by all "
                             "requests of the process (argument-free nodes all refer to it), so every later factorisation - also after a request that was "
                             "rejected - starts from what this one left behind", loc, props=("C12", "C15", "C01"))
        if not isinstance(F, Node) or "nodes" not in F.f:
            raise AnalysisError("compute_argument_factorization did not return an expression graph")
        return F, nodes

    def scenario(label, roots, rank, args_in_order):
        key = f"{f.key}:{label}"
        res.ob(key)
        try:
            F, S_nodes = run(roots, rank, label)
        except Raised as e:
            res.fail(key, f"compute_argument_factorization raises ({e.what}) on `{label}`", loc)
            return
        fn = F.f["nodes"]
        nargs = len(args_in_order)
        # arguments first, canonical order
        head = [fn[i]["expression"] for i in range(min(nargs, len(fn)))] if all(i in fn for i in range(min(nargs, len(fn)))) else None
        if head is None or [h.label for h in head] != [a.label for a in args_in_order]:
            res.fail(key, f"`{label}`: the first nodes of the factorisation graph are {[getattr(h, 'label', h) for h in (head or [])]}, expected the modified arguments "
                     f"{[a.label for a in args_in_order]} in canonical order (argument number, part, reference value, component, derivatives, average, restriction): "
                     "target keys index this list and the IR reads them as (test, trial)", loc)
            return
        argsyms = {a.sym for a in args_in_order}

        def mentions_argument(r):
            return any(v in argsyms for p_ in (r.num, r.den) for mono in p_ for v, _k in mono)
        for i, v in fn.items():
            if i >= nargs and mentions_argument(v["expression"].meaning):
                res.fail(key, f"`{label}`: factor node {i} = {v['expression']!r} still depends on an argument", loc)
                return
        # meaning per component
        ncomp = len(roots)
        total = [Rat.const(0) for _ in range(ncomp)]
        for i, v in fn.items():
            tg, cp = v.get("target"), v.get("component")
            if tg is None and cp is None:
                continue
            if tg is None or cp is None or len(tg) != len(cp):
                res.fail(key, f"`{label}`: node {i} has targets {tg} but components {cp}: the two lists are read in lockstep", loc)
                return
            for argkey, comp in zip(tg, cp):
                if not isinstance(argkey, tuple) or len(argkey) != rank or any(not isinstance(a, int) or not 0 <= a < nargs for a in argkey):
                    res.fail(key, f"`{label}`: target key {argkey!r} of node {i} is not a tuple of {rank} argument positions", loc)
                    return
                nums = [args_in_order[a].ufl_operands[0].number() for a in argkey]
                if nums != list(range(rank)):
                    res.fail(key, f"`{label}`: target key {argkey} lists arguments numbered {nums}; the IR reads the key positionally as form arguments (0, .., {rank - 1}) - "
                             "rows and columns of A would be exchanged or two test functions multiplied", loc)
                    return
                term = v["expression"].meaning
                for a in argkey:
                    term = term * args_in_order[a].meaning
                if not isinstance(comp, int) or not 0 <= comp < ncomp:
                    res.fail(key, f"`{label}`: node {i} is recorded for component {comp!r}", loc)
                    return
                total[comp] = total[comp] + term
        for comp, r in enumerate(roots):
            if not (total[comp] == r.meaning):
                res.fail(key, f"`{label}`, component {comp}: sum of factor * arguments over the target nodes is {_show(total[comp])[:200]}, the integrand is "
                         f"{_show(r.meaning)[:200]}", loc)
                return
        # dependencies
        e2i = F.f.get("e2i", {})
        oe = F.f.get("out_edges", {})
        for i, v in fn.items():
            ex = v["expression"]
            if ex._ufl_is_terminal_ or ex._ufl_is_terminal_modifier_:
                continue
            want = [e2i.get(o) for o in ex.ufl_operands]
            if None in want or list(oe.get(i, [])) != want:
                res.fail(key, f"`{label}`: dependencies of factor node {i} = {ex!r} are {oe.get(i)}, its operands are nodes {want}: the generator would emit the "
                         "node before (or without) an operand", loc)
                return
        if len(fn) != len(e2i):
            res.fail(key, f"`{label}`: {len(fn)} nodes but {len(e2i)} entries in the expression index", loc)

    a, b, c_, d_, g = (Coefficient(n) for n in ("a", "b", "c", "d", "g"))

    def args(rank_, **kw):
        v0 = Indexed(Argument(0), "v0", flat_component=0, **kw)
        v1 = Indexed(Argument(0), "v1", flat_component=1, **kw)
        if rank_ == 1:
            return v0, v1
        u0 = Indexed(Argument(1), "u0", flat_component=0, **kw)
        u1 = Indexed(Argument(1), "u1", flat_component=0, local_derivatives=(1, 0), **kw)
        return v0, v1, u0, u1

    v0, v1, u0, u1 = args(2)
    # trial-function terms written first so that node order differs from canonical argument order
    scenario("bilinear: sums, products in both orders, division", [((a * u0 + b * u1) * v0 + (u0 * v1) * c_ / d_) + (v1 * u1) * g], 2, [v0, v1, u0, u1])
    scenario("bilinear: test functions first in node order", [(v0 * a) * u1 + v1 * (b * u0) + (v0 * u0) / d_], 2, [v0, v1, u0, u1])
    scenario("bilinear: repeated pair collected by the sum", [(a * u0) * v0 + (b * v0) * u0 + (u1 * v1)], 2, [v0, v1, u0, u1])
    scenario("bilinear: conjugated test function (sesquilinear form)", [(a * u0 + u1) * Conj(b * v0 + v1)], 2, [v0, v1, u0, u1])
    scenario("bilinear: conjugated complex literal factor", [(a * u0) * Conj(ComplexValue(2, 3) * v0 + v1)], 2, [v0, v1, u0])
    scenario("bilinear: conjugated literal-only product", [u0 * Conj(ComplexValue(0, 1) * v1)], 2, [v1, u0])
    # every complex-valued terminal under a conjugation is conjugated, whatever its class; real-valued geometry may be kept
    scenario("bilinear: conjugated constant factor", [(a * u0) * Conj(Constant("kappa") * v0 + v1)], 2, [v0, v1, u0])
    scenario("bilinear: conjugated product of geometry, constant and coefficient", [u0 * Conj((GeometricQuantity("x0") * Constant("kappa")) * v1 + (GeometricQuantity("detJ") * b) * v0)], 2, [v0, v1, u0])
    cond = Condition()
    scenario("bilinear: conditional with arguments in both branches", [Conditional(cond, (a * u0) * v0 + u1 * v1, (b * u0) * v0) * g], 2, [v0, v1, u0, u1])
    scenario("bilinear: conditional with a zero branch", [Conditional(cond, Zero(), (b * u0) * v1)], 2, [v1, u0])
    w0, w1 = args(1)
    # a sum of an argument-dependent and an argument-free term is rejected (expressions are not arity-checked by UFL) - and leaves nothing behind
    key = f"{f.key}:mixed-rank sum rejected"
    res.ob(key)
    try:
        run([a * w0 + b], 1, "f*v + g (rejected)")
        res.fail(key, "the expression f*v + g (an argument-dependent plus an argument-free summand) is factorised instead of being rejected: the argument-free term has no "
                 "place in A[point][component][dof]", loc)
    except Raised:
        pass
    scenario("linear: coefficient-dependent factors with a function of a coefficient", [MathFunction(a * b) * w0 + (w1 / d_) * c_ + w0], 1, [w0, w1])
    scenario("linear: single bare argument", [w1], 1, [w0, w1][1:])
    scenario("functional: no arguments", [MathFunction(a) * b + c_], 0, [])
    # expression kernels: several components, one of them sharing its root with another, one argument-free in rank 0
    scenario("rank-0 expression with three components (two share a root)", [a * b, c_ + d_, a * b], 0, [])
    scenario("rank-1 expression with two components", [(a * w0), (b * w1 + w0 * c_)], 1, [w0, w1])
    # interior facet: restriction is the last part of the ordering key
    vp = Indexed(Argument(0), "v+", restriction="+")
    vm = Indexed(Argument(0), "v-", restriction="-")
    up = Indexed(Argument(1), "u+", restriction="+")
    um = Indexed(Argument(1), "u-", restriction="-")
    scenario("interior facet: jump(u)*jump(v)", [(um * a + up * b) * vm + (up * vp) * c_ + (vp * um)], 2, [vp, vm, up, um])
    # zero form of arity 1: no factors at all
    key = f"{f.key}:zero integrand of a linear form"
    res.ob(key)
    try:
        F, _ = run([Zero()], 1)
        if any(v.get("target") for v in F.f["nodes"].values()):
            res.fail(key, "a zero integrand of a linear form produces target factors", loc)
    except Raised as e:
        res.fail(key, f"compute_argument_factorization raises ({e.what}) on a zero integrand of a linear form", loc)
    # a component that vanishes identically contributes nothing; a component that does not depend on the argument but is not zero has no place in
    # A[point][component][dof] and must be rejected like the mixed-rank sum above (expressions are not arity-checked by UFL): treating it as zero
    # silently drops it
    scenario("rank-1 expression with a zero component", [(a * w0), Zero()], 1, [w0])
    key = f"{f.key}:argument-free component of a rank-1 expression rejected"
    res.ob(key)
    for label_, roots_ in (("as_vector([f*v, g])", [a * w0, b]), ("as_vector([g*h, v])", [a * b, w0])):
        try:
            run(roots_, 1, f"{label_} (rejected)")
            res.fail(key, f"the rank-1 expression {label_} is factorised with its argument-free component treated as zero: the kernel leaves that component of A "
                     "untouched although its value is not zero, and nothing is reported", loc, props=("C04", "C19"))
            break
        except Raised:
            pass


@rule(
    "GRAPH-BUILD",
    ["C01", "C04"],
    "build_scalar_graph / build_graph_vertices / _count_nodes_with_unique_post_traversal interpreted on sample scalar expressions (the "
    "tensor-to-scalar rebuild stubbed as the identity on scalar input): every sub-expression is one node, numbered after all its "
    "operands (the factorisation and the generator process nodes in index order), modified terminals are leaves, out_edges list the "
    "operands' nodes in operand order, target nodes carry the component numbers of the expressions they are the root of; and the graph "
    "handed to compute_argument_factorization still means the integrand",
    min_instances=5,
)
def graph_build(repo, res):
    gm = repo.mod(GRAPH)
    bsg, bgv, cnt = gm.func("build_scalar_graph"), gm.func("build_graph_vertices"), gm.func("_count_nodes_with_unique_post_traversal")
    res.functions.update({bsg.key, bgv.key, cnt.key})
    mtm = repo.mod(MT)
    res.functions.add(mtm.func("is_modified_terminal").key)
    fm = repo.mod(FACT)
    caf = fm.func("compute_argument_factorization")
    loc = gm.line(bsg.node)

    class MultiIndex(Expr):
        _ufl_is_terminal_ = True

    class Label(Expr):
        _ufl_is_terminal_ = True

    def world(primary):
        it = Interp(repo, load_classes(repo), primary=primary)
        it.obj_classes = {"ExpressionGraph": GRAPH, "ModifiedTerminal": MT}

        def new_graph():
            g = Node("ExpressionGraph")
            it.call_f(gm.func("ExpressionGraph.__init__"), [g])
            return g
        it.overrides["ExpressionGraph"] = _PyCall(new_graph)
        it.overrides["ufl.classes.MultiIndex"] = MultiIndex
        it.overrides["ufl.classes.Label"] = Label
        it.overrides["rebuild_with_scalar_subexpressions"] = _PyCall(lambda G: [G.f["nodes"][max(G.f["nodes"])]["expression"]])
        it.overrides["Conj"] = _PyCall(lambda x: Conj(x))
        it.overrides["conditional"] = _PyCall(lambda c, t, f_: Conditional(c, _as(t), _as(f_)))
        it.overrides["as_ufl"] = _PyCall(_as)
        it.overrides["logger"] = Node("Logger", info=_PyCall(lambda *a: None), debug=_PyCall(lambda *a: None))

        def analyse(e):
            t = e
            while not t._ufl_is_terminal_:
                t = t.ufl_operands[0]
            return Node("ModifiedTerminal", terminal=t, **(dict(e.mt) if isinstance(e, Indexed) else {}))
        it.overrides["analyse_modified_terminal"] = _PyCall(analyse)
        return it

    a, b, c_, d_ = (Coefficient(n) for n in ("a", "b", "c", "d"))
    v0 = Indexed(Argument(0), "v0", flat_component=0)
    v1 = Indexed(Argument(0), "v1", flat_component=1)
    u0 = Indexed(Argument(1), "u0", flat_component=0)
    shared = a * b
    samples = [
        ("shared sub-expression used three times", (shared * u0) * v0 + (shared + c_) * (v1 * u0) / (shared + d_), 2, [v0, v1, u0]),
        ("argument used twice", (a * v0 + v0 * b) * u0, 2, [v0, u0]),
        ("functional", MathFunction(shared) * c_ + shared, 0, []),
        ("deep left-nested sum", ((((a * v0 + b * v0) + c_ * v1) + d_ * v1) + v0), 1, [v0, v1]),
        ("conditional", Conditional(Condition(), a * v0, b * v0 + v1), 1, [v0, v1]),
    ]
    for label, root, rank, args_in_order in samples:
        key = f"{bsg.key}:{label}"
        res.ob(key)
        it = world(GRAPH)
        try:
            G = it.call_f(bsg, [root])
        except Raised as e:
            res.fail(key, f"build_scalar_graph raises ({e.what}) on `{label}`", loc)
            continue
        if not isinstance(G, Node) or "nodes" not in G.f:
            raise AnalysisError("build_scalar_graph did not return a graph")
        nodes, oe = G.f["nodes"], G.f["out_edges"]
        exprs = [nodes[i]["expression"] for i in sorted(nodes)]
        if sorted(nodes) != list(range(len(nodes))):
            res.fail(key, f"`{label}`: node keys are {sorted(nodes)[:8]}.., not 0..n-1", loc)
            continue
        if len({e._key() for e in exprs}) != len(exprs):
            res.fail(key, f"`{label}`: a sub-expression has two nodes (its value would be computed twice and the expression index is ambiguous)", loc)
            continue
        # every sub-expression down to modified terminals is present
        want = set()

        def collect(e):
            want.add(e._key())
            if not (isinstance(e, Indexed) or e._ufl_is_terminal_):
                for o in e.ufl_operands:
                    collect(o)
        collect(root)
        have = {e._key() for e in exprs}
        if have != want:
            extra = [e for e in exprs if e._key() not in want]
            res.fail(key, f"`{label}`: the graph has {len(have)} nodes, the expression has {len(want)} sub-expressions down to modified terminals"
                     + (f" (e.g. {extra[0]!r} is a node although it lies inside a modified terminal)" if extra else " (a sub-expression is missing)"), loc)
            continue
        idx = {e._key(): i for i, e in enumerate(exprs)}
        bad = None
        for i, e in enumerate(exprs):
            leaf = isinstance(e, Indexed) or e._ufl_is_terminal_
            w = [] if leaf else [idx[o._key()] for o in e.ufl_operands]
            got = list(oe.get(i, []))
            # self-edges are dropped by the builder; nothing else may differ
            if got != [j for j in w if j != i]:
                bad = f"`{label}`: out_edges of node {i} = {e!r} are {got}, its operands are nodes {w} (operand order is what the factorisation handlers index by)"
                break
            if any(j >= i for j in w):
                bad = f"`{label}`: node {i} = {e!r} is numbered before its operand node {max(w)}: nodes are processed in index order, operands must come first"
                break
        if bad:
            res.fail(key, bad, loc)
            continue
        tg = [i for i in nodes if nodes[i].get("target")]
        if tg != [idx[root._key()]] or nodes[tg[0]].get("component") != [0]:
            res.fail(key, f"`{label}`: target nodes {tg} with components {[nodes[i].get('component') for i in tg]}; the root is node {idx[root._key()]}, component [0]", loc)
            continue
        # hand the graph to the factorisation as the IR does: the meaning must survive both stages
        it2 = world(FACT)
        try:
            F = it2.call_f(caf, [G, rank])
        except Raised as e:
            res.fail(key, f"compute_argument_factorization raises ({e.what}) on the graph built for `{label}`", loc)
            continue
        fn = F.f["nodes"]
        total = Rat.const(0)
        ok = True
        for i, v in fn.items():
            for argkey in v.get("target", []) or []:
                term = v["expression"].meaning
                for a_ in argkey:
                    if not isinstance(a_, int) or not 0 <= a_ < len(args_in_order):
                        ok = False
                        break
                    term = term * args_in_order[a_].meaning
                total = total + term
        if not ok or not (total == root.meaning):
            res.fail(key, f"`{label}`: after build_scalar_graph + compute_argument_factorization the factors mean {_show(total)[:160]}, the integrand is {_show(root.meaning)[:160]}", loc)

    # several expressions at once (build_graph_vertices is also used for the tensor-valued pre-graph): components per root, shared roots keep both
    key = f"{bgv.key}:components"
    res.ob(key)
    it = world(GRAPH)
    r0, r1 = a * b, c_ + d_
    try:
        G = it.call_f(bgv, [[r0, r1, r0]])
        nodes = G.f["nodes"]
        comp = {nodes[i]["expression"]._key(): nodes[i].get("component") for i in nodes if nodes[i].get("target")}
        if comp != {r0._key(): [0, 2], r1._key(): [1]}:
            res.fail(key, f"build_graph_vertices([r0, r1, r0]) records components {list(comp.values())}, expected [0, 2] for r0 and [1] for r1", gm.line(bgv.node))
    except Raised as e:
        res.fail(key, f"build_graph_vertices raises ({e.what})", gm.line(bgv.node))
    # MultiIndex / Label operands get no node
    key = f"{cnt.key}:multiindex-has-no-node"
    res.ob(key)
    it = world(GRAPH)
    mi = MultiIndex(Rat.const(0), (), "mi")

    class IndexSum(Expr):
        pass
    e = IndexSum(a.meaning, (a, mi))
    try:
        e2i = it.call_f(cnt, [[e]])
        if not isinstance(e2i, dict) or any(isinstance(k, MultiIndex) for k in e2i) or sorted(e2i.values()) != list(range(len(e2i))):
            res.fail(key, f"_count_nodes_with_unique_post_traversal numbers {list(e2i)!r} as {list(e2i.values()) if isinstance(e2i, dict) else e2i}: indices must be dense "
                     "and MultiIndex operands get none (the symbol table is sized by the node count)", gm.line(cnt.node))
    except Raised as ex:
        res.fail(key, f"_count_nodes_with_unique_post_traversal raises ({ex.what}) on an IndexSum", gm.line(cnt.node))
