"""C17: operator-overload simplifications, fold helpers, optimiser pass preconditions.

ALG-IDENT     each overloaded operator of LExpr, interpreted abstractly from its source over every
              pair of operand shapes (literal 0 / 1 / -1 / other int / other float, symbol, negated
              symbol, Python numbers), returns a tree whose algebraic value (rational normal form)
              equals the operator's meaning; division by a zero literal raises.
FOLD-HELPERS  float_product, MultiIndex global index (row-major strides), the UFL->LNodes operator
              table (Sum/Product/Division lambdas).
LICM-SOUND    shape preconditions of the optimiser passes (hoist iff independent, fail closed,
              declarations kept, hoisted temporary declared before the loop that fills it).
"""

from __future__ import annotations

import ast
import itertools

from ..absint import Interp, Node, Raised, Rat, value
from ..lnodes_model import LNODES, load_classes
from ..model import AnalysisError, call_name, calls_in, dotted, walk_no_nested
from ..registry import rule


def shapes():
    """Abstract operand shapes partitioning every guard the overloads test."""
    return {
        "int0": lambda: Node("LiteralInt", value=0, dtype="DataType.INT"),
        "int1": lambda: Node("LiteralInt", value=1, dtype="DataType.INT"),
        "int-1": lambda: Node("LiteralInt", value=-1, dtype="DataType.INT"),
        "int3": lambda: Node("LiteralInt", value=3, dtype="DataType.INT"),
        "flt0": lambda: Node("LiteralFloat", value=0.0, dtype="DataType.REAL"),
        "flt1": lambda: Node("LiteralFloat", value=1.0, dtype="DataType.REAL"),
        "flt-1": lambda: Node("LiteralFloat", value=-1.0, dtype="DataType.REAL"),
        "flt2.5": lambda: Node("LiteralFloat", value=2.5, dtype="DataType.REAL"),
        # literals close to, but different from, 0 / 1 / -1 (tolerance-based folding must not treat them as such)
        "flt1e-9": lambda: Node("LiteralFloat", value=1e-9, dtype="DataType.REAL"),
        "flt1+1e-6": lambda: Node("LiteralFloat", value=1.000001, dtype="DataType.REAL"),
        "flt-1-1e-6": lambda: Node("LiteralFloat", value=-1.000001, dtype="DataType.REAL"),
        # complex literal values (UFL ComplexValue becomes LiteralFloat(complex)): recognisers must look at the whole number
        "cplx1+.5j": lambda: Node("LiteralFloat", value=complex(1.0, 0.5), dtype="DataType.SCALAR"),
        "cplx.5j": lambda: Node("LiteralFloat", value=complex(0.0, 0.5), dtype="DataType.SCALAR"),
        "cplx-1+2j": lambda: Node("LiteralFloat", value=complex(-1.0, 2.0), dtype="DataType.SCALAR"),
        "sym": lambda: Node("Symbol", name="x", dtype="DataType.REAL"),
        "negsym": lambda: Node("Neg", arg=Node("Symbol", name="y", dtype="DataType.REAL"), dtype="DataType.REAL"),
        # composite operands (index arithmetic): chained offsets must not be folded with the wrong sign
        "sym+int": lambda: Node("Add", lhs=Node("Symbol", name="p", dtype="DataType.INT"), rhs=Node("LiteralInt", value=2, dtype="DataType.INT"), dtype="DataType.INT"),
        "sym-int": lambda: Node("Sub", lhs=Node("Symbol", name="q", dtype="DataType.INT"), rhs=Node("LiteralInt", value=2, dtype="DataType.INT"), dtype="DataType.INT"),
        "int*sym": lambda: Node("Mul", lhs=Node("LiteralInt", value=3, dtype="DataType.INT"), rhs=Node("Symbol", name="r", dtype="DataType.INT"), dtype="DataType.INT"),
        "py0": lambda: 0,
        "py1": lambda: 1,
        "py-1": lambda: -1,
        "py2": lambda: 2,
        "pyf0": lambda: 0.0,
        "pyf2.5": lambda: 2.5,
    }


SPEC = {
    "__add__": lambda s, o: s + o,
    "__radd__": lambda s, o: o + s,
    "__sub__": lambda s, o: s - o,
    "__rsub__": lambda s, o: o - s,
    "__mul__": lambda s, o: s * o,
    "__rmul__": lambda s, o: o * s,
    "__truediv__": lambda s, o: s / o,
    "__rtruediv__": lambda s, o: o / s,
    "__div__": lambda s, o: s / o,
    "__rdiv__": lambda s, o: o / s,
}


def _sym2(n):
    # distinct variable names for self / other symbols
    return n


@rule(
    "ALG-IDENT",
    ["C17", "C09"],
    "every LExpr operator overload (__neg__/__add__/__radd__/__sub__/__rsub__/__mul__/__rmul__/"
    "__div__/__rdiv__ and their aliases), interpreted abstractly from source over all pairs of "
    "operand shapes, returns a tree algebraically equal (rational normal form) to the operation; "
    "division by a literal zero raises",
    min_instances=1000,
)
def alg_ident(repo, res):
    classes = load_classes(repo)
    m = repo.mod(LNODES)
    it = Interp(repo, classes)
    sh = shapes()
    node_shapes = [k for k in sh if not k.startswith("py")]
    res.functions.update(f"{LNODES}:LExpr.{n}" for n in SPEC if f"LExpr.{n}" in m.funcs)
    # unary minus
    for a in node_shapes:
        key = f"LExpr.__neg__:{a}"
        res.ob(key)
        x = sh[a]()
        try:
            r = it.call_method(x, "__neg__")
        except Raised as e:
            res.fail(key, f"-({a}) raises: {e.what}", "ffcx/codegeneration/lnodes.py")
            continue
        if not (value(r) == -value(x)):
            res.fail(f"LExpr.__neg__", f"-({x!r}) is built as {r!r}, whose value differs from the negation",
                     m.line(m.func("LExpr.__neg__").node))
    for meth, spec in SPEC.items():
        if it.find_method("LExpr", meth) is None:
            if meth in ("__div__", "__rdiv__"):
                continue
            raise AnalysisError(f"anchor vanished: LExpr.{meth}")
        fdef = it.find_method("LExpr", meth)
        for a in node_shapes:
            for b in sh:
                key = f"LExpr.{meth}:{a}:{b}"
                res.ob(key)
                s = sh[a]()
                o = sh[b]()
                if isinstance(o, Node) and o.cls == "Symbol":
                    o.f["name"] = "z"
                if isinstance(o, Node) and o.cls == "Neg":
                    o.f["arg"].f["name"] = "w"
                sv, ov = value(s), value(o)
                expect_raise = False
                try:
                    want = spec(sv, ov)
                except ZeroDivisionError:
                    expect_raise = True
                    want = None
                try:
                    r = it.call_method(s, meth, o)
                    raised = None
                except Raised as e:
                    r = None
                    raised = e.what
                fkey = f"LExpr.{meth}:{a}:{b}"
                loc = m.line(fdef.node)
                if expect_raise:
                    if raised is None:
                        res.fail(fkey, f"{meth} with a zero divisor ({a}, {b}) returns {r!r} instead of raising", loc)
                    continue
                if raised is not None:
                    res.fail(fkey, f"{meth}({a}, {b}) raises ({raised}) although the operation is defined", loc)
                    continue
                try:
                    got = value(r)
                except ZeroDivisionError:
                    res.fail(fkey, f"{meth}({a}, {b}) builds {r!r}, which divides by zero", loc)
                    continue
                if not (got == want):
                    res.fail(fkey, f"{meth}(self={s!r}, other={o!r}) builds {r!r}: value differs from the "
                             f"operation's meaning", loc)
    # aliases
    for alias, target in (("__truediv__", "__div__"), ("__rtruediv__", "__rdiv__")):
        key = f"LExpr.{alias}:alias"
        res.ob(key)
        f1 = it.find_method("LExpr", alias)
        if f1 is None:
            res.fail(key, f"LExpr.{alias} is missing: `a / b` on LNodes fails", "ffcx/codegeneration/lnodes.py")


@rule(
    "FOLD-HELPERS",
    ["C17", "C09"],
    "float_product drops exactly the unit factors and multiplies the rest (1.0 when empty); "
    "MultiIndex.global_index is the row-major flattening sum_i idx_i * prod(sizes[i+1:]); the UFL "
    "operator table maps Sum/Product/Division to +, *, /",
    min_instances=40,
)
def fold_helpers(repo, res):
    classes = load_classes(repo)
    m = repo.mod(LNODES)
    it = Interp(repo, classes)
    fp = m.func("float_product")
    res.functions.add(fp.key)
    atoms = {
        "a": lambda: Node("Symbol", name="a", dtype="DataType.REAL"),
        "b": lambda: Node("Symbol", name="b", dtype="DataType.REAL"),
        "one": lambda: Node("LiteralFloat", value=1.0, dtype="DataType.REAL"),
        "ione": lambda: Node("LiteralInt", value=1, dtype="DataType.INT"),
        "zero": lambda: Node("LiteralFloat", value=0.0, dtype="DataType.REAL"),
        "two": lambda: Node("LiteralFloat", value=2.0, dtype="DataType.REAL"),
        "near1": lambda: Node("LiteralFloat", value=1.000001, dtype="DataType.REAL"),
        "aa": lambda: Node("ArrayAccess", array=Node("Symbol", name="w", dtype="DataType.REAL"),
                           indices=(Node("Symbol", name="iq", dtype="DataType.INT"),), dtype="DataType.REAL"),
    }
    for n in range(0, 4):
        for combo in itertools.product(sorted(atoms), repeat=n):
            key = f"float_product:{','.join(combo) or 'empty'}"
            res.ob(key)
            args = [atoms[c]() for c in combo]
            want = Rat.const(1)
            for a in args:
                want = want * value(a)
            try:
                r = it.call_f(fp, [list(args)])
            except Raised as e:
                res.fail("float_product", f"float_product([{', '.join(combo)}]) raises {e.what}", m.line(fp.node))
                continue
            if r is None or not (value(r) == want):
                res.fail("float_product", f"float_product([{', '.join(combo)}]) returns {r!r}, not the product of its factors",
                         m.line(fp.node))
            elif isinstance(r, Node) and r.cls == "Product" and len(r.f["args"]) < 2:
                pass
    # MultiIndex global index
    mi = m.func("MultiIndex.__init__")
    res.functions.add(mi.key)
    for sizes in ([], [5], [2, 3], [2, 3, 4], [4, 1, 3], [1, 1], [3, 1]):
        key = f"MultiIndex.global_index:{sizes}"
        res.ob(key)
        syms = [Node("Symbol", name=f"i{k}", dtype="DataType.INT") for k in range(len(sizes))]
        try:
            obj = it.construct("MultiIndex", [list(syms), list(sizes)], {})
        except Raised as e:
            res.fail("MultiIndex.global_index", f"MultiIndex({sizes}) raises {e.what}", m.line(mi.node))
            continue
        gi = obj.f.get("global_index")
        want = Rat.const(0)
        for k, s in enumerate(syms):
            stride = 1
            for z in sizes[k + 1:]:
                stride *= z
            want = want + value(s) * Rat.const(stride)
        if gi is None or not (value(gi) == want):
            res.fail("MultiIndex.global_index", f"MultiIndex(symbols, sizes={sizes}).global_index = {gi!r} is not the "
                     "row-major flattening", m.line(mi.node))
    # UFL -> LNodes arithmetic lambdas
    table = m.assign("_ufl_call_lookup")
    if not isinstance(table, ast.Dict):
        raise AnalysisError("_ufl_call_lookup is not a dict literal")
    want_ops = {"Product": lambda a, b: a * b, "Sum": lambda a, b: a + b, "Division": lambda a, b: a / b}
    seen = set()
    for k, v in zip(table.keys, table.values):
        nm = (dotted(k) or "").split(".")[-1]
        if nm in want_ops and isinstance(v, ast.Lambda):
            seen.add(nm)
            for sa, sb in (("sym", "sym"), ("sym", "flt2.5"), ("negsym", "sym"), ("flt2.5", "int3"), ("sym", "negsym")):
                key = f"_ufl_call_lookup:{nm}:{sa}:{sb}"
                res.ob(key)
                sh = shapes()
                a, b = sh[sa](), sh[sb]()
                if isinstance(b, Node) and b.cls == "Symbol":
                    b.f["name"] = "z"
                if isinstance(b, Node) and b.cls == "Neg":
                    b.f["arg"].f["name"] = "w"
                env = {}
                params = [p.arg for p in v.args.args]
                env[params[0]] = None
                env[params[1]] = a
                env[params[2]] = b
                try:
                    r = it.expr(v.body, env)
                except Raised as e:
                    res.fail(f"_ufl_call_lookup:{nm}", f"lambda for ufl {nm} raises {e.what}", m.line(v))
                    continue
                if not (value(r) == want_ops[nm](value(a), value(b))):
                    res.fail(f"_ufl_call_lookup:{nm}", f"ufl {nm} is translated to `{ast.unparse(v.body)}`, which does not "
                             f"compute the {nm.lower()} of its operands", m.line(v))
    for nm in want_ops:
        if nm not in seen:
            raise AnalysisError(f"_ufl_call_lookup has no lambda entry for ufl.algebra.{nm}")
    # comparison / logical constructors keep operand order and class
    cmp_want = {"GT": "GT", "GE": "GE", "EQ": "EQ", "NE": "NE", "LT": "LT", "LE": "LE", "AndCondition": "And", "OrCondition": "Or"}
    for k, v in zip(table.keys, table.values):
        nm = (dotted(k) or "").split(".")[-1]
        if nm in cmp_want and isinstance(v, ast.Lambda):
            key = f"_ufl_call_lookup:{nm}"
            res.ob(key)
            body = v.body
            params = [p.arg for p in v.args.args]
            ok = (isinstance(body, ast.Call) and dotted(body.func) == cmp_want[nm] and len(body.args) == 2
                  and [getattr(a, "id", None) for a in body.args] == params[1:3])
            if not ok:
                res.fail(key, f"ufl {nm} is translated to `{ast.unparse(body)}` (expected {cmp_want[nm]}({params[1]}, {params[2]}))", m.line(v))
        if nm == "Conditional" and isinstance(v, ast.Lambda):
            key = "_ufl_call_lookup:Conditional"
            res.ob(key)
            params = [p.arg for p in v.args.args]
            body = v.body
            ok = (isinstance(body, ast.Call) and dotted(body.func) == "Conditional"
                  and [getattr(a, "id", None) for a in body.args] == params[1:4])
            if not ok:
                res.fail(key, f"ufl Conditional is translated to `{ast.unparse(body)}`", m.line(v))
        if nm == "NotCondition" and isinstance(v, ast.Lambda):
            key = "_ufl_call_lookup:NotCondition"
            res.ob(key)
            body = v.body
            if not (isinstance(body, ast.Call) and dotted(body.func) == "Not"):
                res.fail(key, f"ufl NotCondition is translated to `{ast.unparse(body)}`", m.line(v))


OPT = "ffcx.codegeneration.optimizer"


@rule(
    "LICM-SOUND",
    ["C17"],
    "optimiser shape preconditions: a factor is hoisted iff check_dependency says it does not depend "
    "on the inner loop index; check_dependency answers True for every index shape it recognises and "
    "raises on unknown operand kinds; hoisted temporaries are declared and filled before the loop "
    "nest that reads them; fuse_sections keeps all declarations and statements of the fused "
    "sections in order; passes run only on sections carrying their annotation",
    min_instances=10,
)
def licm_sound(repo, res):
    m = repo.mod(OPT)
    licm = m.func("licm")
    cd = m.func("check_dependency")
    res.functions.update({licm.key, cd.key, m.func("fuse_sections").key, m.func("fuse_loops").key, m.func("optimize").key})
    # (a) polarity: append to the hoist list only under `not dependency`
    key = f"{licm.key}:hoist-polarity"
    res.ob(key)
    dep_vars = set()
    for n in walk_no_nested(licm.node):
        if isinstance(n, ast.Assign) and isinstance(n.value, ast.Call) and call_name(n.value) == "check_dependency":
            for t in n.targets:
                if isinstance(t, ast.Name):
                    dep_vars.add(t.id)
    found = False
    for n in walk_no_nested(licm.node):
        if isinstance(n, ast.If):
            t = n.test
            mentions_dep = any(isinstance(x, ast.Name) and x.id in dep_vars for x in ast.walk(t)) or any(
                call_name(c) == "check_dependency" for c in calls_in(t))
            if not mentions_dep:
                continue
            found = True
            negated = isinstance(t, ast.UnaryOp) and isinstance(t.op, ast.Not)
            if isinstance(t, ast.Compare) and isinstance(t.comparators[0], ast.Constant):
                c = t.comparators[0].value
                negated = (isinstance(t.ops[0], (ast.Is, ast.Eq)) and c is False) or (isinstance(t.ops[0], (ast.IsNot, ast.NotEq)) and c is True)
            hoists_in_body = any(isinstance(x, ast.Call) and isinstance(x.func, ast.Attribute) and x.func.attr == "append"
                                 and "hoist" in (dotted(x.func.value) or "") for b in n.body for x in ast.walk(b))
            hoists_in_else = any(isinstance(x, ast.Call) and isinstance(x.func, ast.Attribute) and x.func.attr == "append"
                                 and "hoist" in (dotted(x.func.value) or "") for b in n.orelse for x in ast.walk(b))
            if (hoists_in_body and not negated) or (hoists_in_else and negated):
                res.fail(key, "licm hoists a factor out of the inner loop when check_dependency reports that it "
                         "DEPENDS on the inner loop index (polarity inverted)", m.line(n))
            if not hoists_in_body and not hoists_in_else:
                res.fail(key, "the dependency test no longer guards the hoist list", m.line(n))
    if not found:
        res.fail(key, "licm does not test check_dependency before hoisting", m.line(licm.node))
    # the index tested is the INNER loop's index
    key = f"{licm.key}:inner-index"
    res.ob(key)
    for c in calls_in(licm.node):
        if call_name(c) == "check_dependency" and len(c.args) >= 2:
            a = ast.unparse(c.args[1])
            if "inner" not in a:
                res.fail(key, f"dependency is tested against `{a}`, not the inner loop's index", m.line(c))
    # (b) check_dependency: returns True under the index membership tests, raises at the end for unknown kinds
    key = f"{cd.key}:fail-closed"
    res.ob(key)
    from ..cfg import CFG

    cfg = CFG(cd.node)
    has_raise_default = any(isinstance(s, ast.Raise) for s in ast.walk(cd.node))
    if not has_raise_default:
        res.fail(key, "check_dependency has no raise for unsupported operand kinds: an unknown expression is "
                 "silently treated as loop-invariant and hoisted", m.line(cd.node))
    key = f"{cd.key}:membership-true"
    res.ob(key)
    for n in walk_no_nested(cd.node):
        if isinstance(n, ast.If) and isinstance(n.test, ast.Compare) and isinstance(n.test.ops[0], ast.In):
            left = ast.unparse(n.test.left)
            if left == cd.node.args.args[1].arg:
                rets = [x for x in n.body if isinstance(x, ast.Return)]
                if not rets or not (isinstance(rets[0].value, ast.Constant) and rets[0].value.value is True):
                    res.fail(key, f"`{ast.unparse(n.test)}` does not answer True: an index-dependent access is hoisted", m.line(n))
    # terminals answer False only for Symbol / literals
    key = f"{cd.key}:false-only-for-terminals"
    res.ob(key)
    for n in walk_no_nested(cd.node):
        if isinstance(n, ast.If):
            body_false = any(isinstance(x, ast.Return) and isinstance(x.value, ast.Constant) and x.value.value is False for x in n.body)
            if body_false:
                classes_tested = {(dotted(c.args[1]) or "").split(".")[-1] for c in calls_in(n.test) if call_name(c) == "isinstance" and len(c.args) == 2}
                if not classes_tested <= {"Symbol", "LiteralFloat", "LiteralInt"}:
                    res.fail(key, f"check_dependency answers 'independent' for {sorted(classes_tested)} without looking inside", m.line(n))
    # (c) hoisted temporaries: ArrayDecl + filling loop are placed before the original statements
    key = f"{licm.key}:preloop-before"
    res.ob(key)
    ok = False
    for n in walk_no_nested(licm.node):
        if isinstance(n, ast.Assign) and any(isinstance(t, ast.Attribute) and t.attr == "statements" for t in n.targets):
            v = n.value
            if isinstance(v, ast.BinOp) and isinstance(v.op, ast.Add):
                l, r = ast.unparse(v.left), ast.unparse(v.right)
                ok = "pre_loop" in l and "statements" in r
                if not ok:
                    res.fail(key, f"section statements rebuilt as `{ast.unparse(v)}`: hoisted temporaries are "
                             "read before they are filled", m.line(n))
                ok = True
    if not ok:
        res.fail(key, "licm no longer prepends the hoisted computations to the section", m.line(licm.node))
    # temp array declaration precedes its filling loop and is not const
    key = f"{licm.key}:temp-decl"
    res.ob(key)
    appends = [c for c in calls_in(licm.node) if isinstance(c.func, ast.Attribute) and c.func.attr == "append" and "pre_loop" in (dotted(c.func.value) or "")]
    kinds = []
    for c in appends:
        a = c.args[0]
        kinds.append((call_name(a) or "").split(".")[-1] if isinstance(a, ast.Call) else "?")
        if isinstance(a, ast.Call) and (call_name(a) or "").endswith("ArrayDecl"):
            for k in a.keywords:
                if k.arg == "const" and isinstance(k.value, ast.Constant) and k.value.value:
                    res.fail(key, "hoisted temporary declared const but assigned in the pre-loop", m.line(a))
    if kinds[:2] != ["ArrayDecl", "ForRange"]:
        res.fail(key, f"pre-loop is built in order {kinds}: the temporary must be declared before the loop filling it", m.line(licm.node))
    # the filling statement is a plain Assign of Product(hoist_candidates) into temp[outer index]
    key = f"{licm.key}:temp-fill"
    res.ob(key)
    fills = [c for c in calls_in(licm.node) if (call_name(c) or "").split(".")[-1] in ("Assign", "AssignAdd", "AssignSub", "AssignMul")]
    if len(fills) != 1 or not (call_name(fills[0]) or "").endswith(".Assign"):
        res.fail(key, "the hoisted temporary is not filled by a plain assignment (uninitialised storage accumulated)", m.line(licm.node))
    else:
        rhs = ast.unparse(fills[0].args[1])
        if "Product" not in rhs or "hoist_candidates" not in rhs:
            res.fail(key, f"hoisted temporary is filled with `{rhs}`, not the product of the hoisted factors", m.line(fills[0]))
    # removal and replacement refer to the same product
    key = f"{licm.key}:replace-same-product"
    res.ob(key)
    rem = [c for c in calls_in(licm.node) if isinstance(c.func, ast.Attribute) and c.func.attr == "remove"]
    app = [c for c in calls_in(licm.node) if isinstance(c.func, ast.Attribute) and c.func.attr == "append" and ".args" in (dotted(c.func.value) or "")]
    if not rem or not app or dotted(rem[0].func.value) != dotted(app[0].func.value):
        res.fail(key, "hoisted factors are removed from one product and the temporary appended to another", m.line(licm.node))
    # (d) optimize(): passes gated by their annotation
    opt = m.func("optimize")
    for pas, ann in (("fuse_loops", "fuse"), ("licm", "licm")):
        key = f"{opt.key}:gate:{pas}"
        res.ob(key)
        ok = False
        for n in walk_no_nested(opt.node):
            if isinstance(n, ast.If) and any(call_name(c) == pas for b in n.body for c in calls_in(b)):
                # innermost guard only
                if any(isinstance(x, ast.If) and x is not n and any(call_name(c) == pas for c in calls_in(x)) for b in n.body for x in ast.walk(b)):
                    continue
                ok = f"Annotation.{ann}" in ast.unparse(n.test) and isinstance(n.test, ast.Compare) and isinstance(n.test.ops[0], ast.In)
                if not ok:
                    res.fail(key, f"{pas} is applied under `{ast.unparse(n.test)}`, not under its annotation", m.line(n))
                ok = True
        if not ok:
            calls = [c for c in calls_in(opt.node) if call_name(c) == pas]
            if calls:
                res.fail(key, f"{pas} is applied to sections without checking Annotation.{ann}", m.line(calls[0]))
    # (e) fuse_sections keeps declarations, statements, in order, only for sections of that name
    fs = m.func("fuse_sections")
    key = f"{fs.key}:keeps-everything"
    res.ob(key)
    ext = {}
    for c in calls_in(fs.node):
        if isinstance(c.func, ast.Attribute) and c.func.attr == "extend" and c.args:
            ext[dotted(c.func.value)] = ast.unparse(c.args[0])
    for lst, src in (("declarations", "section.declarations"), ("statements", "section.statements"), ("input", "section.input"), ("output", "section.output")):
        if ext.get(lst) != src:
            res.fail(key, f"fuse_sections builds `{lst}` from `{ext.get(lst)}` (expected {src}): code of a fused section is lost", m.line(fs.node))
    key = f"{fs.key}:name-match"
    res.ob(key)
    ok = any(isinstance(n, ast.If) and ast.unparse(n.test).replace(" ", "") in ("section.name==name", "name==section.name") for n in walk_no_nested(fs.node))
    if not ok:
        res.fail(key, "fuse_sections does not restrict fusion to sections with the requested name", m.line(fs.node))
    key = f"{fs.key}:ctor-order"
    res.ob(key)
    for c in calls_in(fs.node):
        if (call_name(c) or "").endswith("Section"):
            got = [ast.unparse(a) for a in c.args]
            if got[:5] != ["name", "statements", "declarations", "input", "output"]:
                res.fail(key, f"fused Section built with arguments {got}", m.line(c))
    # (f) fuse_loops: loops are merged only when index, begin and end all agree; non-loops keep order
    fl = m.func("fuse_loops")
    key = f"{fl.key}:fusion-key"
    res.ob(key)
    okk = False
    for n in walk_no_nested(fl.node):
        if isinstance(n, ast.Assign) and isinstance(n.value, ast.Tuple):
            parts = [ast.unparse(e) for e in n.value.elts]
            if any("index" in p for p in parts):
                okk = True
                need = {"index", "begin", "end"}
                have = {p.split(".")[-1] for p in parts}
                if not need <= have:
                    res.fail(key, f"loops are fused on key {parts}: loops with different {sorted(need - have)} are merged", m.line(n))
    if not okk:
        res.fail(key, "cannot find the fusion key of fuse_loops", m.line(fl.node))
    key = f"{fl.key}:keeps-declarations"
    res.ob(key)
    for c in calls_in(fl.node):
        if (call_name(c) or "").endswith("Section"):
            got = [ast.unparse(a) for a in c.args]
            if len(got) < 5 or got[2] != "code.declarations" or got[0] != "code.name":
                res.fail(key, f"fuse_loops rebuilds the section as Section({', '.join(got)}): declarations lost", m.line(c))


@rule(
    "INT-DIVISION",
    ["C17", "C16", "C18"],
    "LNodes `/` is true division (UFL's Division; Python's `/` in the numba backend): the quotient of two integer-typed operands, built "
    "through the overloaded operators (also after the folding of ones and zeros has replaced a real-typed operand by an integer literal), is "
    "typed REAL, and the C formatter does not print it as a quotient of two C integers (which truncates) - it casts an operand to the real "
    "type; the numba formatter prints `/`",
    min_instances=6,
)
def int_division(repo, res):
    import re

    classes = load_classes(repo)
    m = repo.mod(LNODES)
    FMC, FMN = "ffcx.codegeneration.C.formatter", "ffcx.codegeneration.numba.formatter"
    it = Interp(repo, classes)
    S = lambda n: it.construct("Symbol", [n, "DataType.INT"], {})  # noqa: E731
    LI = lambda v: it.construct("LiteralInt", [v], {})  # noqa: E731
    LF = lambda v: it.construct("LiteralFloat", [v], {})  # noqa: E731
    div = m.func("LExpr.__div__") if "LExpr.__div__" in m.funcs else m.func("LExpr.__truediv__")
    mul = m.func("LExpr.__mul__")
    add = m.func("LExpr.__add__")
    res.functions.update({div.key, mul.key, add.key})
    samples = {
        "i / j (integer symbols)": lambda: it.call_f(div, [S("i"), S("j")]),
        "3 / 2 (integer literals)": lambda: it.call_f(div, [LI(3), LI(2)]),
        "(1.0 * 3) / 2 (the real one is folded away)": lambda: it.call_f(div, [it.call_f(mul, [LF(1.0), LI(3)]), LI(2)]),
        "1 / (0.0 + 2) (the real zero is folded away)": lambda: it.call_f(div, [LI(1), it.call_f(add, [LF(0.0), LI(2)])]),
        "i / 2": lambda: it.call_f(div, [S("i"), LI(2)]),
    }

    def all_int(n):
        """is the tree a quotient whose two operands are integer-typed (a C integer division if printed as `a / b`)?"""
        return isinstance(n, Node) and n.cls == "Div" and n.f["lhs"].f.get("dtype") == "DataType.INT" and n.f["rhs"].f.get("dtype") == "DataType.INT"

    for label, build in samples.items():
        key = f"lnodes:true-division:{label}"
        res.ob(key)
        try:
            t = build()
        except Raised as e:
            res.fail(key, f"building {label} raises ({e.what})", m.line(div.node))
            continue
        if not isinstance(t, Node):
            raise AnalysisError(f"INT-DIVISION: {label} did not build a node")
        if t.cls == "LiteralFloat":
            continue  # folded to a real literal: fine
        if t.f.get("dtype") == "DataType.INT":
            res.fail(key, f"{label} builds {t!r} typed INT: a variable declared with this type, and C's `/` on two integers, truncate the quotient (3 / 2 is 1) while "
                     "UFL's division and the numba backend (`/`) mean 1.5", m.line(div.node), props=("C17",))
            continue
        if not all_int(t):
            continue
        # the C formatter on this tree: interpreted handler, operands printed by name
        for fm_, be in ((FMC, "C"),):
            fmod = repo.mod(fm_)
            cands = [f_ for f_ in fmod.funcs.values() if f_.node.name == "_" and re.search(r"\bBinOp\b", ast.unparse(f_.node.args))]
            if len(cands) != 1:
                raise AnalysisError(f"{be} formatter: BinOp handler not found")
            h = cands[0]
            res.functions.add(h.key)
            for sname, rname in (("float64", "double"), ("float32", "float"), ("complex128", "double")):
                k2 = f"{h.key}:true-division:{label}:{sname}"
                res.ob(k2)
                from ..npmodel import install as _inst

                itf = _inst(Interp(repo, classes, primary=fm_))
                itf.obj_classes = {"Formatter": fm_}

                def show(a):
                    if isinstance(a, Node) and a.cls in ("LiteralInt", "LiteralFloat"):
                        return str(a.f["value"])
                    if isinstance(a, Node) and a.cls == "Symbol":
                        return a.f["name"]
                    return "(expr)"
                from ..npmodel import DT as _DT, REALOF as _RO
                fmt = Node("Formatter", scalar_type=_DT(sname), real_type=_DT(_RO[sname]), __call__=_PyCallF(show))
                try:
                    text = str(itf.call_f(h, [fmt, t]))
                except Raised as e:
                    res.fail(k2, f"C formatter raises ({e.what}) on {label}", fmod.line(h.node), props=("C16",))
                    continue
                if not re.search(rf"\(\s*{rname}\s*\)", text) and not re.search(r"\d\.\d|\de[-+]?\d", text):
                    res.fail(k2, f"{label} is printed as `{text}` in a {sname} kernel: both operands are C integers, so C truncates the quotient; LNodes division is true "
                             f"division - an operand must be cast to `{rname}`", fmod.line(h.node), props=("C16", "C17", "C18"))
    key = "numba:true-division"
    res.ob(key)
    nmod = repo.mod(FMN)
    # the numba formatter prints the class's own operator: `/` is true division in Python
    if classes["Div"].op != "/":
        res.fail(key, f"Div.op is {classes['Div'].op!r}", m.rel, props=("C18",))


from ..absint import _PyCall as _PyCallF  # noqa: E402
