"""Tensor-valued UFL expressions -> scalar graph, interpreted end to end (C01, C04).

GEN-SCALARIZE  ffcx.ir.analysis.graph.build_scalar_graph with everything below it - build_graph_vertices, the post-order numbering,
               ValueNumberer (compute_symbols and all its handlers: symmetric elements, derivative symmetries, Indexed /
               ComponentTensor / ListTensor fall-through), indexing.map_indexed_arg_components / map_component_tensor_arg_components,
               rebuild_with_scalar_subexpressions and the reconstruct handlers with their dispatch table - is interpreted from source
               on sample *tensor-valued* expressions built from small stand-ins for UFL's classes (shape, free indices, index
               dimensions, operands).  Every stand-in can be evaluated independently of FFCx by a direct tensor evaluator written
               in the rule (components as polynomials in the terminals' components, index sums expanded).  Specification: the
               expression of the target node of the scalar graph means the root expression, node for node the graph is a valid
               scalar graph (post-order, operands as edges, modified terminals as leaves), and equal scalar sub-expressions
               (symmetric components, commuting second derivatives) are one node.
"""

from __future__ import annotations

import itertools
from fractions import Fraction as Fr

from ..absint import Interp, Node, PyNative, Raised, Rat, _PyCall
from ..lnodes_model import load_classes
from ..model import AnalysisError
from ..registry import rule
from .pipeline import _show

GRAPH = "ffcx.ir.analysis.graph"
VN = "ffcx.ir.analysis.valuenumbering"
IDX = "ffcx.ir.analysis.indexing"
REC = "ffcx.ir.analysis.reconstruct"
MT = "ffcx.ir.analysis.modified_terminals"


# ---- stand-ins for UFL ----------------------------------------------------------------------------------------------------

class Index(PyNative):
    def __init__(self, count, dim):
        self._count, self.dim = count, dim

    def count(self):
        return self._count

    def __repr__(self):
        return f"i{self._count}"

    def __hash__(self):
        return hash(("Index", self._count))

    def __eq__(self, o):
        return isinstance(o, Index) and o._count == self._count


class FixedIndex(PyNative):
    def __init__(self, v):
        self.v = v

    def __int__(self):
        return self.v

    __index__ = __int__

    def __repr__(self):
        return str(self.v)

    def __hash__(self):
        return hash(("FixedIndex", self.v))

    def __eq__(self, o):
        return isinstance(o, FixedIndex) and o.v == self.v


class Expr(PyNative):
    _ufl_is_terminal_ = False
    _ufl_is_terminal_modifier_ = False
    _ufl_is_literal_ = False
    ufl_shape: tuple = ()
    ufl_free_indices: tuple = ()
    ufl_index_dimensions: tuple = ()
    ufl_operands: tuple = ()

    def _key(self):
        return (type(self).__name__, getattr(self, "label", None), tuple(o._key() if isinstance(o, Expr) else repr(o) for o in self.ufl_operands))

    def __hash__(self):
        return hash(self._key())

    def __eq__(self, o):
        return isinstance(o, Expr) and self._key() == o._key()

    def __repr__(self):
        lab = getattr(self, "label", None)
        return f"{type(self).__name__}({lab if lab is not None else ', '.join(map(repr, self.ufl_operands))})"

    def _free(self, ops):
        """free indices of an operator node: union of the operands' (sorted by count)"""
        d = {}
        for o in ops:
            if isinstance(o, Expr):
                d.update(dict(zip(o.ufl_free_indices, o.ufl_index_dimensions)))
        fi = tuple(sorted(d))
        return fi, tuple(d[i] for i in fi)

    def __getitem__(self, comp):
        comp = comp if isinstance(comp, tuple) else (comp,)
        return Indexed(self, MultiIndex(tuple(FixedIndex(int(c)) for c in comp)))

    # scalar arithmetic as UFL does it for the results of reconstruction (sum() starts from 0)
    def __add__(self, o):
        return self if (isinstance(o, (int, float)) and o == 0) else Sum(self, o)

    def __radd__(self, o):
        return self if (isinstance(o, (int, float)) and o == 0) else Sum(o, self)

    def __mul__(self, o):
        return Product(self, o)

    def _ufl_expr_reconstruct_(self, *ops):
        return type(self)(*ops)

    # ---- the independent evaluator -----------------------------------------------------------------------------------
    def value(self, env):  # -> {component tuple: Rat}
        raise NotImplementedError(type(self).__name__)


class MultiIndex(Expr):
    _ufl_is_terminal_ = True

    def __init__(self, indices):
        self.indices = tuple(indices)
        self.label = repr(self.indices)

    def __iter__(self):
        return iter(self.indices)

    def __len__(self):
        return len(self.indices)

    def __getitem__(self, k):
        return self.indices[k]


class Terminal(Expr):
    _ufl_is_terminal_ = True

    def __init__(self, name, shape=(), symmetry=None, tdim=2):
        self.label, self.ufl_shape, self.symmetry, self.tdim = name, tuple(shape), symmetry or {}, tdim

    def canon(self, c):
        return self.symmetry.get(tuple(c), tuple(c))

    def value(self, env):
        return {c: Rat.var(f"{self.label}{list(self.canon(c))}") for c in itertools.product(*[range(n) for n in self.ufl_shape])}

    def ufl_function_space(self):
        sym = dict(self.symmetry)
        outer = self

        class _PB(PyNative):
            pass

        class SymmetricPullback(_PB):
            def __init__(self):
                comps = list(itertools.product(*[range(n) for n in outer.ufl_shape]))
                reps = sorted({outer.canon(c) for c in comps})
                self._symmetry = {c: reps.index(outer.canon(c)) for c in comps}
        pb = SymmetricPullback() if sym else _PB()
        el = Node("Element", pullback=pb)
        return Node("FunctionSpace", ufl_element=_PyCall(lambda: el))


class Coefficient(Terminal):
    pass


class Argument(Terminal):
    pass


class SpatialCoordinate(Terminal):
    pass


def _terminal_of(e):
    while not e._ufl_is_terminal_:
        e = e.ufl_operands[0]
    return e


class ReferenceGrad(Expr):
    _ufl_is_terminal_modifier_ = True

    def __init__(self, f):
        self.ufl_operands = (f,)
        self.TDIM = _terminal_of(f).tdim
        self.ufl_shape = tuple(f.ufl_shape) + (self.TDIM,)

    def value(self, env):
        out = {}
        for c, v in self.ufl_operands[0].value(env).items():
            for d in range(self.TDIM):
                (mono, coef), = v.num.items()
                (name, _p), = mono
                base, _, ders = name.partition("|d")
                dl = sorted([int(x) for x in ders.split(",") if x] + [d])  # derivatives commute
                out[c + (d,)] = Rat.var(f"{base}|d{','.join(map(str, dl))}")
        return out


class Restricted(Expr):
    _ufl_is_terminal_modifier_ = True

    def __init__(self, f, side="+"):
        self.ufl_operands = (f,)
        self.ufl_shape = tuple(f.ufl_shape)
        self.side = side
        self.label = None

    def _key(self):
        return ("Restricted", self.side, (self.ufl_operands[0]._key(),))

    def value(self, env):
        out = {}
        for c, v in self.ufl_operands[0].value(env).items():
            (mono, coef), = v.num.items()
            (name, _p), = mono
            out[c] = Rat.var(f"{name}({self.side})")
        return out


class Indexed(Expr):
    _ufl_is_terminal_modifier_ = True

    def __init__(self, A, mi):
        self.ufl_operands = (A, mi)
        d = dict(zip(A.ufl_free_indices, A.ufl_index_dimensions))
        for k, i in enumerate(mi):
            if isinstance(i, Index):
                d[i.count()] = A.ufl_shape[k]
        fi = tuple(sorted(d))
        self.ufl_free_indices, self.ufl_index_dimensions = fi, tuple(d[i] for i in fi)

    def value(self, env):
        A, mi = self.ufl_operands
        c = tuple(int(i) if isinstance(i, FixedIndex) else env[i.count()] for i in mi)
        return {(): A.value(env)[c]}


class _Op(Expr):
    def __init__(self, *ops):
        self.ufl_operands = tuple(ops)
        self.ufl_free_indices, self.ufl_index_dimensions = self._free(ops)
        self.ufl_shape = ()


class Sum(_Op):
    def __init__(self, a, b):
        super().__init__(a, b)
        self.ufl_shape = tuple(a.ufl_shape)

    def value(self, env):
        a, b = (o.value(env) for o in self.ufl_operands)
        return {c: a[c] + b[c] for c in a}


class Product(_Op):
    def value(self, env):
        a, b = (o.value(env) for o in self.ufl_operands)
        return {(): a[()] * b[()]}


class Division(_Op):
    def __init__(self, a, b):
        super().__init__(a, b)
        self.ufl_shape = tuple(a.ufl_shape)

    def value(self, env):
        a, b = (o.value(env) for o in self.ufl_operands)
        return {c: a[c] / b[()] for c in a}


class MathFunction(_Op):
    def value(self, env):
        (a,) = (o.value(env) for o in self.ufl_operands)
        return {(): Rat.var(f"fn[{_show(a[()])}]")}


class IndexSum(Expr):
    def __init__(self, summand, mi):
        self.ufl_operands = (summand, mi)
        ic = mi[0].count()
        d = dict(zip(summand.ufl_free_indices, summand.ufl_index_dimensions))
        self.dim = d.pop(ic)
        fi = tuple(sorted(d))
        self.ufl_free_indices, self.ufl_index_dimensions = fi, tuple(d[i] for i in fi)
        self.ufl_shape = tuple(summand.ufl_shape)

    def value(self, env):
        summand, mi = self.ufl_operands
        ic = mi[0].count()
        out = None
        for k in range(self.dim):
            v = summand.value({**env, ic: k})
            out = v if out is None else {c: out[c] + v[c] for c in v}
        return out


class ComponentTensor(Expr):
    def __init__(self, e, mi):
        self.ufl_operands = (e, mi)
        d = dict(zip(e.ufl_free_indices, e.ufl_index_dimensions))
        self.ufl_shape = tuple(d.pop(i.count()) for i in mi)
        fi = tuple(sorted(d))
        self.ufl_free_indices, self.ufl_index_dimensions = fi, tuple(d[i] for i in fi)

    def value(self, env):
        e, mi = self.ufl_operands
        out = {}
        for c in itertools.product(*[range(n) for n in self.ufl_shape]):
            out[c] = e.value({**env, **{i.count(): c[k] for k, i in enumerate(mi)}})[()]
        return out


class ListTensor(Expr):
    def __init__(self, *rows):
        self.ufl_operands = tuple(rows)
        self.ufl_shape = (len(rows),) + tuple(rows[0].ufl_shape)
        self.ufl_free_indices, self.ufl_index_dimensions = self._free(rows)

    def value(self, env):
        out = {}
        for r, row in enumerate(self.ufl_operands):
            for c, v in row.value(env).items():
                out[(r,) + c] = v
        return out


class Variable(Expr):
    def __init__(self, e, label):
        self.ufl_operands = (e, Terminal(f"label{label}"))
        self.ufl_shape = tuple(e.ufl_shape)
        self.ufl_free_indices, self.ufl_index_dimensions = e.ufl_free_indices, e.ufl_index_dimensions

    def value(self, env):
        return self.ufl_operands[0].value(env)


class ObjArr(PyNative):
    """np.empty(n, dtype=object)"""

    def __init__(self, n):
        self.items = [None] * n

    def __getitem__(self, k):
        if isinstance(k, (list, tuple)):
            return [self.items[j] for j in k]
        return self.items[k]

    def __setitem__(self, k, v):
        self.items[k] = v

    def __len__(self):
        return len(self.items)


CLASSES = {c.__name__: c for c in (Expr, Terminal, Coefficient, Argument, SpatialCoordinate, ReferenceGrad, Restricted, Indexed, Sum, Product, Division, MathFunction, IndexSum,
                                   ComponentTensor, ListTensor, Variable, MultiIndex, Index, FixedIndex)}


def _world(repo):
    it = Interp(repo, load_classes(repo), primary=GRAPH)
    it.obj_classes = {"ExpressionGraph": GRAPH, "ValueNumberer": VN}
    gm = repo.mod(GRAPH)

    def new_graph():
        g = Node("ExpressionGraph")
        it.call_f(gm.func("ExpressionGraph.__init__"), [g])
        return g
    it.overrides["ExpressionGraph"] = _PyCall(new_graph)
    vm = repo.mod(VN)

    def new_vn(G):
        o = Node("ValueNumberer")
        it.call_f(vm.func("ValueNumberer.__init__"), [o, G])
        return o
    it.overrides["ValueNumberer"] = _PyCall(new_vn)
    for name, cls in CLASSES.items():
        it.overrides[f"ufl.classes.{name}"] = cls
        it.overrides[name] = cls
    for nm in ("Grad", "FacetAvg", "CellAvg", "ReferenceValue", "Label", "Abs", "MinValue", "MaxValue", "Real", "Imag", "Power", "BesselFunction", "Atan2", "Conj",
               "Conditional", "Condition"):
        it.overrides.setdefault(f"ufl.classes.{nm}", type(nm, (Expr,), {}))
    it.overrides["SymmetricPullback"] = "SymmetricPullback"
    ci = _PyCall(lambda shape: [tuple(t) for t in itertools.product(*[range(n_) for n_ in shape])])

    def strides(shape):
        out, acc = [], 1
        for n_ in reversed(tuple(shape)):
            out.append(acc)
            acc *= n_
        return tuple(reversed(out))
    for pre in ("", "ufl.permutation."):
        it.overrides[pre + "compute_indices"] = ci
    for pre in ("", "ufl.utils.indexflattening."):
        it.overrides[pre + "shape_to_strides"] = _PyCall(strides)
        it.overrides[pre + "flatten_multiindex"] = _PyCall(lambda ii, st: sum(int(i) * s_ for i, s_ in zip(ii, st)))
    it.overrides["ufl.product"] = _PyCall(lambda seq: __import__("math").prod(list(seq)))
    it.overrides["np.empty"] = _PyCall(lambda n, dtype=None: ObjArr(n))
    it.overrides["logger"] = Node("Logger", info=_PyCall(lambda *a: None), debug=_PyCall(lambda *a: None))
    it.overrides["ufl.domain.extract_unique_domain"] = _PyCall(lambda t: Node("Mesh", topological_dimension=_terminal_of(t).tdim, geometric_dimension=_terminal_of(t).tdim))

    def analyse(e):
        ld, restr = [], None
        t = e
        comp = ()
        while not t._ufl_is_terminal_:
            if isinstance(t, Indexed):
                comp = tuple(int(i) for i in t.ufl_operands[1])
            elif isinstance(t, ReferenceGrad):
                ld.append(None)
            elif isinstance(t, Restricted):
                restr = t.side
            t = t.ufl_operands[0]
        nld = len(ld)
        base_shape = tuple(t.ufl_shape)
        sym = {c: t.canon(c) for c in itertools.product(*[range(n) for n in base_shape]) if t.canon(c) != c}
        return Node("ModifiedTerminal", terminal=t, local_derivatives=tuple(comp[len(base_shape):len(base_shape) + nld]) if comp else (0,) * nld,
                    global_derivatives=(), base_shape=base_shape, base_symmetry=sym, restriction=restr, reference_value=False, averaged=None)
    it.overrides["analyse_modified_terminal"] = _PyCall(analyse)
    return it


def _meaning(e):
    """meaning of a scalar expression produced by the reconstruction"""
    if e.ufl_shape or e.ufl_free_indices:
        raise AnalysisError(f"{e!r} is not scalar")
    return e.value({})[()]


@rule(
    "GEN-SCALARIZE",
    ["C01", "C04"],
    "build_scalar_graph with the value numbering, the index maps and the reconstruction handlers underneath is interpreted on sample "
    "tensor-valued expressions (index sums, component tensors with transposition, list tensors, symmetric tensor coefficients, second "
    "derivatives, restricted operands, division by a scalar, a variable): the target node of the scalar graph must mean the root "
    "expression as a direct tensor evaluator computes it, the graph must be a well-formed scalar graph, and components identified by "
    "symmetry are one node",
    min_instances=8,
)
def gen_scalarize(repo, res):
    gm = repo.mod(GRAPH)
    f = gm.func("build_scalar_graph")
    res.functions.add(f.key)
    for mod_, names in ((GRAPH, ["rebuild_with_scalar_subexpressions", "build_graph_vertices", "_count_nodes_with_unique_post_traversal"]),
                        (IDX, ["map_indexed_arg_components", "map_component_tensor_arg_components"]),
                        (REC, ["reconstruct", "handle_sum", "handle_product", "handle_division", "handle_index_sum", "handle_scalar_nary"]),
                        (VN, ["ValueNumberer.compute_symbols", "ValueNumberer.expr", "ValueNumberer.form_argument", "ValueNumberer._modified_terminal", "ValueNumberer.indexed",
                              "ValueNumberer.component_tensor", "ValueNumberer.list_tensor", "ValueNumberer.variable", "ValueNumberer.get_node_symbols"])):
        for n in names:
            res.functions.add(repo.mod(mod_).func(n).key)
    loc = gm.line(f.node)

    def I(c, dim=2):
        return Index(c, dim)

    def mi(*ix):
        return MultiIndex(ix)

    A, B = Coefficient("A", (2, 2)), Coefficient("B", (2, 2))
    S = Coefficient("S", (2, 2), symmetry={(1, 0): (0, 1)})
    f_, g_ = Coefficient("f"), Coefficient("g")
    v = Argument("v")
    u2 = Argument("u", (2,))
    i, j, k = I(1), I(2), I(3)
    h3, A3 = Coefficient("h", tdim=3), Coefficient("M", (3, 3), tdim=3)
    w2, w3 = Coefficient("w", (2,)), Coefficient("W", (3,), tdim=3)
    p3, q3 = I(4, 3), I(5, 3)
    dot_AB = ComponentTensor(IndexSum(Product(Indexed(A, mi(i, k)), Indexed(B, mi(k, j))), mi(k)), mi(i, j))
    samples = [
        ("inner product of two reference gradients", IndexSum(Product(Indexed(ReferenceGrad(f_), mi(i)), Indexed(ReferenceGrad(v), mi(i))), mi(i))),
        ("entry (0,1) of a matrix product", Indexed(dot_AB, mi(FixedIndex(0), FixedIndex(1)))),
        ("transposition through a component tensor", Indexed(ComponentTensor(Indexed(A, mi(j, i)), mi(i, j)), mi(FixedIndex(0), FixedIndex(1)))),
        ("Frobenius product with a symmetric tensor coefficient", IndexSum(IndexSum(Product(Indexed(S, mi(i, j)), Indexed(A, mi(i, j))), mi(j)), mi(i))),
        ("Hessian contracted with a tensor", IndexSum(IndexSum(Product(Indexed(ReferenceGrad(ReferenceGrad(f_)), mi(i, j)), Indexed(A, mi(i, j))), mi(j)), mi(i))),
        ("last component of a list tensor of sums", Indexed(ListTensor(Sum(f_, g_), Product(f_, Indexed(u2, mi(FixedIndex(1)))), Product(g_, g_)), mi(FixedIndex(2)))),
        ("first component of a list tensor", Indexed(ListTensor(Sum(f_, g_), Product(f_, Indexed(u2, mi(FixedIndex(1)))), Product(g_, g_)), mi(FixedIndex(0)))),
        ("contraction over the first of two free indices: (A^T u)[1]", Indexed(ComponentTensor(IndexSum(Product(Indexed(A, mi(i, j)), Indexed(u2, mi(i))), mi(i)), mi(j)), mi(FixedIndex(1)))),
        ("Hessian in three dimensions contracted with a tensor", IndexSum(IndexSum(Product(Indexed(ReferenceGrad(ReferenceGrad(h3)), mi(p3, q3)), Indexed(A3, mi(p3, q3))), mi(q3)), mi(p3))),
        ("Hessian of the second component of a vector-valued function contracted with a tensor",
         IndexSum(IndexSum(Product(Indexed(ReferenceGrad(ReferenceGrad(w2)), mi(FixedIndex(1), i, j)), Indexed(A, mi(i, j))), mi(j)), mi(i))),
        ("vector Laplacian tested with a vector argument: sum_c sum_i d2w_c/dX_i^2 u_c",
         IndexSum(Product(IndexSum(Indexed(ReferenceGrad(ReferenceGrad(w2)), mi(k, i, i)), mi(i)), Indexed(u2, mi(k))), mi(k))),
        ("Hessian of a vector-valued function in three dimensions, component 2, contracted with a tensor",
         IndexSum(IndexSum(Product(Indexed(ReferenceGrad(ReferenceGrad(w3)), mi(FixedIndex(2), p3, q3)), Indexed(A3, mi(p3, q3))), mi(q3)), mi(p3))),
        ("division of a tensor expression by a scalar", Indexed(ComponentTensor(Division(Indexed(A, mi(i, j)), Sum(f_, g_)), mi(i, j)), mi(FixedIndex(1), FixedIndex(0)))),
        ("restricted operands of an interior facet term", IndexSum(Product(Indexed(Restricted(ReferenceGrad(f_), "+"), mi(i)), Indexed(Restricted(ReferenceGrad(v), "-"), mi(i))), mi(i))),
        ("trace of a matrix product (double contraction)", IndexSum(Indexed(dot_AB, mi(i, i)), mi(i))),
        ("free index kept through a sum, then contracted", IndexSum(Product(Sum(Indexed(A, mi(i, FixedIndex(0))), Indexed(B, mi(FixedIndex(1), i))), Indexed(u2, mi(i))), mi(i))),
        ("function of a contracted expression times a variable", Product(MathFunction(IndexSum(Product(Indexed(u2, mi(i)), Indexed(u2, mi(i))), mi(i))), Variable(Sum(f_, g_), 7))),
    ]
    for label, root in samples:
        key = f"{f.key}:{label}"
        res.ob(key)
        it = _world(repo)
        try:
            G = it.call_f(f, [root])
        except Raised as e:
            res.fail(key, f"build_scalar_graph raises ({e.what}) on `{label}`", loc)
            continue
        if not isinstance(G, Node) or "nodes" not in G.f:
            raise AnalysisError("build_scalar_graph did not return a graph")
        nodes, oe = G.f["nodes"], G.f["out_edges"]
        tg = [n for n in nodes if nodes[n].get("target")]
        if len(tg) != 1:
            res.fail(key, f"`{label}`: {len(tg)} target nodes in the scalar graph", loc)
            continue
        try:
            got = _meaning(nodes[tg[0]]["expression"])
            want = root.value({})[()]
        except (KeyError, ValueError, AnalysisError) as e:
            res.fail(key, f"`{label}`: the target expression of the scalar graph is not an evaluable scalar ({e})", loc)
            continue
        if not (got == want):
            res.fail(key, f"`{label}`: the scalar graph computes {_show(got)[:220]}, the expression means {_show(want)[:220]} (components as <terminal>[indices], derivatives "
                     "after |d): a component, a summation index or a symmetry is mapped to the wrong scalar", loc)
            continue
        # well-formedness of the scalar graph
        exprs = [nodes[n]["expression"] for n in sorted(nodes)]
        if sorted(nodes) != list(range(len(nodes))) or len({e._key() for e in exprs}) != len(exprs):
            res.fail(key, f"`{label}`: node numbering is not dense / a scalar sub-expression has two nodes", loc)
            continue
        idx = {e._key(): n for n, e in enumerate(exprs)}
        for n, e in enumerate(exprs):
            if e.ufl_shape or e.ufl_free_indices:
                res.fail(key, f"`{label}`: node {n} = {e!r} of the scalar graph is not scalar (shape {e.ufl_shape}, free indices {e.ufl_free_indices})", loc)
                break
            leaf = e._ufl_is_terminal_ or e._ufl_is_terminal_modifier_
            w = [] if leaf else [idx.get(o._key()) for o in e.ufl_operands if not isinstance(o, MultiIndex)]
            if None in w or [x for x in oe.get(n, [])] != [x for x in w if x != n] or any(x >= n for x in w):
                res.fail(key, f"`{label}`: node {n} = {e!r} has out_edges {oe.get(n)}, its operands are nodes {w} (operands must be earlier nodes, in operand order)", loc)
                break
    # identified components are one node: S[0,1] and S[1,0]; d2f/dxdy and d2f/dydx
    key = f"{f.key}:symmetric-components-share-a-node"
    res.ob(key)
    it = _world(repo)
    root = Sum(Product(Indexed(S, mi(FixedIndex(0), FixedIndex(1))), f_), Product(Indexed(S, mi(FixedIndex(1), FixedIndex(0))), g_))
    H = ReferenceGrad(ReferenceGrad(f_))
    root2 = Sum(Indexed(H, mi(FixedIndex(0), FixedIndex(1))), Indexed(H, mi(FixedIndex(1), FixedIndex(0))))
    try:
        for r, what in ((root, "S[0,1] and S[1,0] of a symmetric tensor element"), (root2, "the mixed second derivatives of f")):
            G = it.call_f(f, [r])
            leaves = [n_["expression"] for n_ in G.f["nodes"].values() if n_["expression"]._ufl_is_terminal_modifier_]
            vals = [_show(_meaning(e)) for e in leaves if isinstance(e, Indexed) and e.ufl_operands[0] in (S, H)]
            if len(vals) != 1:
                res.fail(key, f"{what} are {len(vals)} nodes ({vals}): equal values are tabulated and evaluated twice, and the symmetry information of the element is lost", loc)
            it = _world(repo)
    except Raised as e:
        res.fail(key, f"build_scalar_graph raises ({e.what}) on a symmetric sample", loc)
