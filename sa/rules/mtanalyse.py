"""ffcx.ir.analysis.modified_terminals.analyse_modified_terminal interpreted on a small model of UFL expressions (C05, C01, C04).

MT-ANALYSE  The function peels Indexed / ReferenceValue / ReferenceGrad / Grad / Restricted / CellAvg / FacetAvg off a terminal and
            records component, derivative directions, restriction, averaging and - what the generated code adds to the offset of
            a constant in `c`, of a table column, ... - the *flat component*.  Samples cover ranks 0..3 with unequal extents, a
            symmetric tensor element and every modifier; the expected flat component is the row-major index (through the symmetry
            map where the element has one), derivative directions are sorted tuples.
"""

from __future__ import annotations

import itertools

from ..absint import Interp, Node, PyNative, Raised, _PyCall
from ..lnodes_model import load_classes
from ..model import AnalysisError
from ..registry import rule

MT = "ffcx.ir.analysis.modified_terminals"


class FixedIndex(PyNative):
    def __init__(self, v):
        self.v = v

    def __int__(self):
        return self.v

    def __index__(self):
        return self.v


def _numbering(shape, symmetry):
    """UFL's build_component_numbering: value index -> flat index, symmetric components share the index of their image."""
    vi2si, si2vi = {}, []
    for idx in itertools.product(*[range(s) for s in shape]):
        if idx in symmetry:
            continue
        vi2si[idx] = len(si2vi)
        si2vi.append(idx)
    for idx, img in symmetry.items():
        vi2si[tuple(idx)] = vi2si[tuple(img)]
    return vi2si, si2vi


@rule(
    "MT-ANALYSE",
    ["C05", "C01", "C04", "C08"],
    "analyse_modified_terminal interpreted on sample modified terminals: the flat component is the row-major index of the component in the "
    "terminal's (reference) value shape - through the symmetry map of a symmetric element - for ranks 0..3 with unequal extents; derivative "
    "directions, restriction, averaging and reference_value are those of the wrappers; malformed wrappers are rejected",
    min_instances=12,
)
def mt_analyse(repo, res):
    m = repo.mod(MT)
    f = m.func("analyse_modified_terminal")
    res.functions.add(f.key)
    init = m.funcs.get("ModifiedTerminal.__init__")
    if init is None:
        raise AnalysisError("ModifiedTerminal.__init__ not found")
    fields = [a.arg for a in init.node.args.args][1:]

    def make_mt(*a, **k):
        d = dict(zip(fields, a))
        d.update(k)
        return Node("ModifiedTerminal", **d)

    def interp():
        it = Interp(repo, load_classes(repo), primary=MT)
        it.extra_bases = {"Coefficient": ["FormArgument"], "Argument": ["FormArgument"], "PositiveRestricted": ["Restricted"], "NegativeRestricted": ["Restricted"]}
        it.overrides["ModifiedTerminal"] = _PyCall(make_mt)
        it.overrides["build_component_numbering"] = _PyCall(lambda sh, sy: _numbering(tuple(sh), {tuple(k): tuple(v) for k, v in dict(sy).items()}))
        it.overrides["np.cumprod"] = _PyCall(lambda seq, **k: list(itertools.accumulate(seq, lambda a_, b_: a_ * b_)))
        it.overrides["np.prod"] = _PyCall(lambda seq, **k: __import__("math").prod(seq))
        return it

    def op(cls, *operands, **extra):
        return Node(cls, ufl_operands=tuple(operands), _ufl_is_terminal_=False, _ufl_is_terminal_modifier_=True, _ufl_terminal_modifiers_=True, **extra)

    def terminal(cls, name, shape, element=None):
        t = Node(cls, name=name, ufl_shape=tuple(shape), _ufl_is_terminal_=True, _ufl_is_terminal_modifier_=False, _ufl_terminal_modifiers_=False)
        if element is not None:
            t.f["ufl_function_space"] = _PyCall(lambda: Node("FunctionSpace", ufl_element=_PyCall(lambda: element)))
        return t

    def idx(e, *comp):
        return op("Indexed", e, [FixedIndex(c) for c in comp])

    k3 = terminal("Constant", "k3", (2, 3, 2))
    k2 = terminal("Constant", "k2", (3, 2))
    k0 = terminal("Constant", "k0", ())
    x = terminal("SpatialCoordinate", "x", (3,))
    vel = Node("Element", reference_value_shape=(3,), symmetry=_PyCall(lambda: {}))
    fv = terminal("Coefficient", "f", (3,), vel)
    sel = Node("Element", reference_value_shape=(3,), symmetry=_PyCall(lambda: {(1, 0): (0, 1)}))
    fs = terminal("Coefficient", "s", (2, 2), sel)
    tel = Node("Element", reference_value_shape=(2, 3), symmetry=_PyCall(lambda: {}))
    ft = terminal("Argument", "v", (2, 3), tel)

    cases = []
    for comp in [(0, 0, 0), (0, 1, 1), (1, 0, 1), (1, 2, 1), (0, 2, 0)]:
        cases.append((f"rank-3 constant (2,3,2) component {comp}", idx(k3, *comp), dict(component=comp, flat_component=comp[0] * 6 + comp[1] * 2 + comp[2], terminal=k3)))
    for comp in [(0, 1), (2, 0), (2, 1)]:
        cases.append((f"rank-2 constant (3,2) component {comp}", idx(k2, *comp), dict(component=comp, flat_component=comp[0] * 2 + comp[1], terminal=k2)))
    cases.append(("scalar constant", k0, dict(component=(), flat_component=0, terminal=k0, restriction=None, averaged=None, reference_value=False)))
    cases.append(("reference value of a vector coefficient, '-' side, d/dX1 and d/dX0",
                  idx(op("NegativeRestricted", op("ReferenceGrad", op("ReferenceGrad", op("ReferenceValue", fv))), _side="-"), 2, 0, 1),
                  dict(component=(2,), flat_component=2, local_derivatives=(0, 1), global_derivatives=(), restriction="-", reference_value=True, terminal=fv)))
    cases.append(("reference value of a (2,3) argument, component (1,2), '+' side",
                  idx(op("PositiveRestricted", op("ReferenceValue", ft), _side="+"), 1, 2),
                  dict(component=(1, 2), flat_component=5, restriction="+", reference_value=True, local_derivatives=(), terminal=ft)))
    for comp, flat in (((0, 0), 0), ((0, 1), 1), ((1, 0), 1), ((1, 1), 2)):
        cases.append((f"symmetric (2,2) coefficient component {comp}", idx(fs, *comp), dict(component=comp, flat_component=flat, reference_value=False, terminal=fs)))
    cases.append(("Jacobian-like: reference gradient of the spatial coordinate", idx(op("ReferenceGrad", x), 2, 1),
                  dict(component=(2,), flat_component=2, local_derivatives=(1,), reference_value=False, terminal=x)))
    cases.append(("cell average of a vector coefficient component", idx(op("CellAvg", op("ReferenceValue", fv)), 1), dict(component=(1,), flat_component=1, averaged="cell")))
    cases.append(("facet average", idx(op("FacetAvg", op("ReferenceValue", fv)), 0), dict(component=(0,), flat_component=0, averaged="facet")))
    cases.append(("physical gradient of a constant-like terminal", idx(op("Grad", op("Grad", k0)), 1, 0), dict(component=(), flat_component=0, global_derivatives=(0, 1))))
    for label, e, want in cases:
        key = f"{f.key}:{label}"
        res.ob(key)
        try:
            out = interp().call_f(f, [e])
        except Raised as ex:
            res.fail(key, f"analyse_modified_terminal raises ({ex.what}) on {label}", m.line(f.node))
            continue
        if not isinstance(out, Node) or out.cls != "ModifiedTerminal":
            raise AnalysisError("analyse_modified_terminal did not return a ModifiedTerminal")
        bad = {}
        for k_, v_ in want.items():
            g = out.f.get(k_)
            if k_ == "terminal":
                if g is not v_:
                    bad[k_] = (getattr(g, "f", {}).get("name", g), v_.f["name"])
            elif (tuple(g) if isinstance(g, (list, tuple)) else g) != v_:
                bad[k_] = (g, v_)
        if bad:
            res.fail(key, f"{label}: {{field: (got, expected)}} = {bad}; the flat component is what the kernel adds to the object's offset (c[offset + flat], "
                     "table column), so components would alias each other or run into the next object", m.line(f.node))
    rejects = [
        ("twice restricted", op("PositiveRestricted", op("NegativeRestricted", fv, _side="-"), _side="+")),
        ("twice indexed", idx(idx(k2, 1, 1))),
        ("component outside the shape", idx(k2, 3, 0)),
        ("rank mismatch", idx(k3, 1, 1)),
        ("gradient without index", op("Grad", k0)),
    ]
    for label, e in rejects:
        key = f"{f.key}:rejects:{label}"
        res.ob(key)
        try:
            out = interp().call_f(f, [e])
            res.fail(key, f"a malformed modified terminal ({label}) is accepted (flat component {out.f.get('flat_component') if isinstance(out, Node) else out!r})", m.line(f.node))
        except Raised:
            pass
