"""Static-analysis checkers for FFCx (see /verif/DESIGN.md)."""
