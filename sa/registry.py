"""Rule registry: rules register themselves with the properties they serve."""

from __future__ import annotations

from .report import RuleResult

RULES: dict[str, dict] = {}


def rule(name: str, props: list[str], text: str, min_instances: int = 1, tier: str = "quick"):
    """Register `fn(repo, res)`; `res` is a pre-made RuleResult the rule fills in."""

    def deco(fn):
        RULES[name] = {
            "fn": fn,
            "props": list(props),
            "text": text,
            "min_instances": min_instances,
            "tier": tier,
        }
        return fn

    return deco


def rules_for(prop: str, tier: str) -> list[str]:
    out = []
    for n, r in RULES.items():
        if prop in r["props"] and (r["tier"] == "quick" or tier == "thorough"):
            out.append(n)
    return out


def run_rule(name: str, repo) -> RuleResult:
    from .model import AnalysisError

    r = RULES[name]
    res = RuleResult(rule=name, text=r["text"], min_instances=r["min_instances"])
    r["fn"](repo, res)
    if len(res.instances) < res.min_instances and not res.findings:
        raise AnalysisError(
            f"rule {name} matched {len(res.instances)} instances, fewer than the {res.min_instances} "
            "confirmed by hand: an anchor vanished (vacuous pass refused)"
        )
    return res
