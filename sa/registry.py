"""Rule registry: rules register themselves with the properties they serve."""

from __future__ import annotations

from .report import RuleResult

RULES: dict[str, dict] = {}


def rule(name: str, props: list[str], text: str, min_instances: int = 1, tier: str = "quick"):
    """Register `fn(repo, res)`; `res` is a pre-made RuleResult the rule fills in."""

    def deco(fn):
        RULES[name] = {
            "fn": fn,
            "props": list(props),
            "text": text,
            "min_instances": min_instances,
            "tier": tier,
        }
        return fn

    return deco


_ANCHORS: dict[str, set[str]] | None = None


def anchor_props(module_name: str) -> set[str]:
    """Properties whose anchors (properties.jsonl, `anchors.files`) list the source file of this module: a defect of a
    whole-program rule (process-lifetime state, aliasing) found in that file is a defect of the behaviour anchored there."""
    global _ANCHORS
    if _ANCHORS is None:
        import json
        from pathlib import Path

        _ANCHORS = {}
        pf = Path(__file__).resolve().parent.parent / "properties.jsonl"
        for line in pf.read_text().splitlines():
            if line.strip():
                pr = json.loads(line)
                for f_ in pr.get("anchors", {}).get("files", []):
                    _ANCHORS.setdefault(f_, set()).add(pr["id"])
    rel = module_name.replace(".", "/")
    return set(_ANCHORS.get(rel + ".py", set())) | set(_ANCHORS.get(rel + "/__init__.py", set()))


def rules_for(prop: str, tier: str) -> list[str]:
    out = []
    for n, r in RULES.items():
        if prop in r["props"] and (r["tier"] == "quick" or tier == "thorough"):
            out.append(n)
    return out


def run_rule(name: str, repo) -> RuleResult:
    from .model import AnalysisError

    r = RULES[name]
    res = RuleResult(rule=name, text=r["text"], min_instances=r["min_instances"])
    try:
        r["fn"](repo, res)
    except AnalysisError as e:
        # what the rule had already decided stands: a violation found before the rule met something it cannot judge is reported
        # (with the unjudged remainder as a note); without findings the error is the rule's outcome
        if not res.findings:
            raise
        res.notes.append(f"the rest of this rule could not be judged ({e}); the findings above were decided before that point")
        return res
    if len(res.instances) < res.min_instances and not res.findings:
        raise AnalysisError(
            f"rule {name} matched {len(res.instances)} instances, fewer than the {res.min_instances} "
            "confirmed by hand: an anchor vanished (vacuous pass refused)"
        )
    return res


# Pairs of rule sets that decide the same obligations by different means (a shape-matched / structural reading and an
# interpretation of the same code). An ANALYSIS-ERROR ("cannot judge") of rules on one side is tolerated - reported as a
# note, not as exit 2 - when every rule of the other side completed: the obligation was decided. Violations always stand.
COVER = [
    ({"LICM-SOUND"}, {"PASS-EQUIV"}),
    ({"EXPR-LAYOUT"}, {"GEN-EXPR", "GEN-EXPRESSION-IR"}),
    ({"PREFIX-OFFSETS"}, {"GEN-INTEGRAL-IR", "GEN-EXPRESSION-IR"}),
    ({"RULE-ENTITY-TAG"}, {"QRULE-GROUP"}),
    ({"BOUND-SAMESRC"}, {"GEN-BLOCKS", "GEN-DEFS", "GEN-EXPR"}),
    ({"RULE-COHERENCE"}, {"GEN-KERNEL"}),
    ({"RULE-SCOPED-NAMES"}, {"GEN-KERNEL"}),
    ({"PERM-FLAG-IMPL"}, {"GEN-INTEGRAL-DRIVER"}),
    ({"EXPR-COEF-POS"}, {"GEN-EXPRESSION-IR", "ANALYZE-OBJECTS"}),
    ({"CONJ-LAW"}, {"FACT-DRIVER"}),
    ({"IDX-SPACE", "PERM-CONSISTENT", "FORM-KERNEL-ALIGN", "TYPE-ORDER"}, {"GEN-FORM"}),
]


def covering_sets(name: str):
    """Directional: only the structural / shape-matched side (first set) may be excused by the interpreting side (second set). An
    interpreting rule that cannot run leaves its obligations undecided - the structural reading is weaker and does not stand in."""
    out = []
    for a, b in COVER:
        if name in a:
            out.append(b)
    return out


def apply_cover(errors: list[str], ok_names: set[str], repo) -> tuple[list[str], list[str]]:
    """Split `errors` ("RULE: message") into (remaining, tolerated) according to COVER."""
    err_names = {e.split(":", 1)[0] for e in errors}
    cache_ok: dict[str, bool] = {}

    def completes(rn: str) -> bool:
        if rn in ok_names:
            return True
        if rn in err_names:
            return False
        if rn not in cache_ok:
            try:
                run_rule(rn, repo)
                cache_ok[rn] = True
            except Exception:
                cache_ok[rn] = False
        return cache_ok[rn]

    remaining, tolerated = [], []
    for e in errors:
        rn = e.split(":", 1)[0]
        sets = covering_sets(rn)
        if sets and any(all(completes(y) for y in ys) for ys in sets):
            tolerated.append(e)
        else:
            remaining.append(e)
    return remaining, tolerated


# Structural rules whose findings on the listed obligations are *second opinions*: the covering rule decides the same
# obligation semantically (by interpreting the code on samples). When every covering rule completed with no finding, such
# a structural finding is reported as a note, not as a violation - a restructured but equivalent implementation (a loop
# instead of three comprehensions, a comprehension instead of a loop) must not raise an alarm. Obligations the covering
# rule does not decide (key filter false) keep their verdict.
DEMOTE = {
    "LICM-SOUND": ({"PASS-EQUIV"}, lambda key: True),
    "PERM-CONSISTENT": ({"GEN-FORM"}, lambda key: True),
    "IDX-SPACE": ({"GEN-FORM"}, lambda key: True),
    "FORM-KERNEL-ALIGN": ({"GEN-FORM"}, lambda key: True),
    "TYPE-ORDER": ({"GEN-FORM"}, lambda key: key.endswith(":type-order") or key.endswith(":type-keys")),
    "BOUND-SAMESRC": ({"GEN-BLOCKS", "GEN-DEFS", "GEN-EXPR"}, lambda key: True),
    "RULE-COHERENCE": ({"GEN-KERNEL"}, lambda key: True),
    "RULE-SCOPED-NAMES": ({"GEN-KERNEL"}, lambda key: key.endswith(":fw-cache-key")),
    # which temporaries a kernel stores to, and that each is declared in the kernel, is decided by executing whole kernels (stores to anything but a declared
    # local or the output are execution errors there); the per-function "declared by the same function, spelled the same" reading is a second opinion
    "ACCUMULATE-ONLY": ({"GEN-KERNEL", "EXPR-KERNEL", "GEN-KERNEL-FACET"}, lambda key: key.endswith(":undeclared")),
    # the passes an expression goes through, their order and the real / complex treatment: EXPR-PREPROCESS interprets _analyze_expression with recording passes
    "PIPE-FLAGS": ({"EXPR-PREPROCESS"}, lambda key: "_analyze_expression:" in key),
    "TYPE-ROLES": ({"EXPR-PREPROCESS", "COMPILE-PIPELINE"}, lambda key: key.endswith("_analyze_expression:remove-complex-nodes") or key.endswith(":scalar-type-to-analysis")),
    # which stages compile_ufl_objects runs, once each, chained, and what it returns: COMPILE-PIPELINE interprets it with recording stages
    "SINGLE-PIPELINE": ({"COMPILE-PIPELINE"}, lambda key: "compile_ufl_objects:" in key),
    "PERM-FLAG-IMPL": ({"GEN-INTEGRAL-DRIVER"}, lambda key: True),
    "EXPR-COEF-POS": ({"GEN-EXPRESSION-IR", "ANALYZE-OBJECTS"}, lambda key: True),
    "EXPR-LAYOUT": ({"GEN-EXPR", "GEN-EXPRESSION-IR"}, lambda key: True),
    "PREFIX-OFFSETS": ({"GEN-INTEGRAL-IR", "GEN-EXPRESSION-IR"}, lambda key: True),
    "RULE-ENTITY-TAG": ({"QRULE-GROUP"}, lambda key: True),
}


def apply_demote(results: list, repo) -> list[str]:
    """Move covered structural findings of `results` into notes; returns the list of demoted descriptions."""
    by_name = {r.rule: r for r in results}
    cache: dict[str, bool] = {}

    def clean(rn: str) -> bool:
        if rn in by_name:
            return not by_name[rn].findings
        if rn not in cache:
            try:
                cache[rn] = not run_rule(rn, repo).findings
            except Exception:
                cache[rn] = False
        return cache[rn]

    demoted = []
    for r in results:
        spec = DEMOTE.get(r.rule)
        if not spec or not r.findings:
            continue
        cover, pred = spec
        if not all(clean(c) for c in cover):
            continue
        keep = []
        for f in r.findings:
            if pred(f.key):
                d = f"{r.rule}:{f.key}: {f.msg}"
                demoted.append(d)
                r.notes.append(f"structural second opinion (not a verdict; {', '.join(sorted(cover))} decided this obligation and found nothing): {f.msg}")
            else:
                keep.append(f)
        r.findings[:] = keep
    return demoted
