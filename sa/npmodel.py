"""A small model of numpy dtypes for interpreted repository code (np.dtype, np.issubdtype, scalar classes).

Only what the generators and ffcx.codegeneration.utils use: `.name`, `.char`, equality between dtypes,
scalar classes and names, `.type(0).real.dtype`, np.issubdtype against np.floating / np.complexfloating /
np.integer.
"""

from __future__ import annotations

from .absint import PyNative, _PyCall

REALOF = {"float32": "float32", "float64": "float64", "complex64": "float32", "complex128": "float64",
          "longdouble": "longdouble", "intc": "intc", "int32": "int32", "int64": "int64", "uint8": "uint8"}
CHAR = {"float32": "f", "float64": "d", "complex64": "F", "complex128": "D", "longdouble": "g", "intc": "i", "int32": "i", "int64": "l", "uint8": "B"}
CTYPE = {"float32": "float", "float64": "double", "complex64": "float _Complex", "complex128": "double _Complex"}
KIND = {"float32": "floating", "float64": "floating", "longdouble": "floating", "complex64": "complexfloating", "complex128": "complexfloating",
        "intc": "integer", "int32": "integer", "int64": "integer", "uint8": "integer"}


def name_of(t) -> str:
    if isinstance(t, DT):
        return t.name
    s = str(t)
    for pre in ("np.", "numpy."):
        if s.startswith(pre):
            s = s[len(pre):]
    if s not in REALOF:
        raise TypeError(f"data type {s!r} not understood")
    return s


class DT(PyNative):
    def __init__(self, name):
        self.name = name
        self.char = CHAR[name]

    def __eq__(self, o):
        try:
            return name_of(o) == self.name
        except TypeError:
            return False

    def __hash__(self):
        return hash(self.name)

    def __str__(self):
        return self.name

    def __repr__(self):
        return f"dtype('{self.name}')"

    def type(self, v):
        outer = self

        class _Scalar(PyNative):
            dtype = outer

            @property
            def real(self_):
                class _Real(PyNative):
                    dtype = DT(REALOF[outer.name])
                return _Real()
        return _Scalar()


def install(it):
    """Register the numpy stubs on an interpreter."""
    it.overrides["np.dtype"] = _PyCall(lambda x: x if isinstance(x, DT) else DT(name_of(x)))
    for k in ("floating", "complexfloating", "integer"):
        it.overrides[f"np.{k}"] = f"np.{k}"
    it.overrides["np.issubdtype"] = _PyCall(lambda t, k: KIND[name_of(t)] == str(k).split(".")[-1])
    for nm in REALOF:
        it.overrides[f"np.{nm}"] = DT(nm)
    return it


# ---- ndarray model --------------------------------------------------------------------------------------

class NDArr(PyNative):
    """A dense array of exact numbers (nested lists) with numpy's basic indexing."""

    def __init__(self, data, shape=None):
        self.data = data
        if shape is None:
            shape = []
            d = data
            while isinstance(d, list):
                shape.append(len(d))
                d = d[0] if d else None
            shape = tuple(shape)
        self.shape = tuple(shape)

    @property
    def ndim(self):
        return len(self.shape)

    @property
    def size(self):
        n = 1
        for s in self.shape:
            n *= s
        return n

    def flat(self):
        out = []

        def walk(d):
            if isinstance(d, list):
                for x in d:
                    walk(x)
            else:
                out.append(d)
        walk(self.data)
        return out

    def __len__(self):
        return self.shape[0]

    def __iter__(self):
        for i in range(self.shape[0]):
            yield self[i]

    def __getitem__(self, idx):
        if not isinstance(idx, tuple):
            idx = (idx,)
        if len(idx) > len(self.shape):
            raise IndexError("too many indices for array")
        idx = tuple(idx) + (slice(None),) * (len(self.shape) - len(idx))

        def take(d, k, shape):
            if k == len(idx):
                return d, ()
            i = idx[k]
            n = shape[0]
            if isinstance(i, slice):
                rows = [take(d[j], k + 1, shape[1:]) for j in range(*i.indices(n))]
                sub = rows[0][1] if rows else tuple(_sliced_shape(idx[k + 1:], shape[1:]))
                return [r[0] for r in rows], (len(rows),) + tuple(sub)
            if isinstance(i, bool) or not isinstance(i, int):
                raise IndexError(f"unsupported index {i!r}")
            if not -n <= i < n:
                raise IndexError(f"index {i} is out of bounds for axis {k} with size {n}")
            return take(d[i], k + 1, shape[1:])

        d, shp = take(self.data, 0, self.shape)
        if shp == ():
            return d
        return NDArr(d, shp)

    def copy(self):
        import copy
        return NDArr(copy.deepcopy(self.data), self.shape)

    def __eq__(self, o):
        return isinstance(o, NDArr) and o.shape == self.shape and o.flat() == self.flat()

    def __hash__(self):
        return hash((self.shape, tuple(self.flat())))

    def tobytes(self):
        """Exact content (the model keeps exact numbers, so this is injective on the values; the shape is NOT part of it, as in numpy)."""
        return repr(self.flat()).encode()

    def tolist(self):
        import copy
        return copy.deepcopy(self.data)

    def _render(self):
        """numpy's printing: 8 significant digits, elision beyond 1000 elements."""
        flat = self.flat()
        if len(flat) > 1000:
            flat = flat[:3] + ["..."] + flat[-3:]
        return "[" + ", ".join(v if isinstance(v, str) else f"{float(v):.8g}" for v in flat) + "]"

    def __repr__(self):
        return f"array({self._render()})"

    def __str__(self):
        return self._render()


def _sliced_shape(idx, shape):
    out = []
    for i, n in zip(idx, shape):
        if isinstance(i, slice):
            out.append(len(range(*i.indices(n))))
    return out


def full(shape, v):
    shape = (shape,) if isinstance(shape, int) else tuple(shape)

    def build(k):
        if k == len(shape):
            return v
        return [build(k + 1) for _ in range(shape[k])]
    return NDArr(build(0), shape)


def allclose(a, b, rtol=0, atol=0, **k):
    """Exact model: tolerances are treated as `equal` (samples differ by far more than any tolerance)."""
    fa = a.flat() if isinstance(a, NDArr) else None
    fb = b.flat() if isinstance(b, NDArr) else None
    if fa is None and fb is None:
        return a == b
    if fa is None:
        fa = [a] * len(fb)
    elif fb is None:
        fb = [b] * len(fa)
    elif a.shape != b.shape:
        # numpy broadcasting of trailing axes only where one is a suffix of the other
        if len(fa) and len(fb) and len(fa) % len(fb) == 0 and a.shape[-len(b.shape):] == b.shape:
            fb = fb * (len(fa) // len(fb))
        elif len(fa) and len(fb) and len(fb) % len(fa) == 0 and b.shape[-len(a.shape):] == a.shape:
            fa = fa * (len(fb) // len(fa))
        else:
            raise ValueError(f"operands could not be broadcast together with shapes {a.shape} {b.shape}")
    return all(x == y for x, y in zip(fa, fb))


def install_arrays(it):
    def prod(x):
        out = 1
        for v in (x.flat() if isinstance(x, NDArr) else x):
            out *= v
        return out
    it.overrides["np.prod"] = _PyCall(prod)
    it.overrides["np.allclose"] = _PyCall(allclose)
    it.overrides["np.isclose"] = _PyCall(allclose)
    it.overrides["np.zeros"] = _PyCall(lambda shape, **k: full(shape, 0))
    it.overrides["np.ones"] = _PyCall(lambda shape, **k: full(shape, 1))
    it.overrides["np.eye"] = _PyCall(lambda n, **k: NDArr([[1 if i == j else 0 for j in range(n)] for i in range(n)], (n, n)))
    it.overrides["np.array"] = _PyCall(lambda x, **k: x if isinstance(x, NDArr) else NDArr(x))
    it.overrides["np.asarray"] = it.overrides["np.array"]
    it.overrides["np.ascontiguousarray"] = it.overrides["np.array"]
    it.overrides["np.array2string"] = _PyCall(lambda x, **k: str(x))
    it.overrides["np.array_str"] = _PyCall(lambda x, **k: str(x))
    it.overrides["np.array_repr"] = _PyCall(lambda x, **k: repr(x))
    for nm in ("float64", "float32"):
        it.overrides.setdefault(f"np.{nm}", f"np.{nm}")
    return it
