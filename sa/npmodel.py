"""A small model of numpy dtypes for interpreted repository code (np.dtype, np.issubdtype, scalar classes).

Only what the generators and ffcx.codegeneration.utils use: `.name`, `.char`, equality between dtypes,
scalar classes and names, `.type(0).real.dtype`, np.issubdtype against np.floating / np.complexfloating /
np.integer.
"""

from __future__ import annotations

from .absint import PyNative, _PyCall

REALOF = {"float32": "float32", "float64": "float64", "complex64": "float32", "complex128": "float64",
          "longdouble": "longdouble", "intc": "intc", "int32": "int32", "int64": "int64", "uint8": "uint8", "bool": "bool"}
CHAR = {"float32": "f", "float64": "d", "complex64": "F", "complex128": "D", "longdouble": "g", "intc": "i", "int32": "i", "int64": "l", "uint8": "B", "bool": "?"}
CTYPE = {"float32": "float", "float64": "double", "complex64": "float _Complex", "complex128": "double _Complex"}
KIND = {"float32": "floating", "float64": "floating", "longdouble": "floating", "complex64": "complexfloating", "complex128": "complexfloating",
        "intc": "integer", "int32": "integer", "int64": "integer", "uint8": "integer", "bool": "bool_"}


# library fact: other spellings numpy.dtype() accepts for the same types (type names of C, array-protocol strings, type characters)
ALIASES = {"cdouble": "complex128", "csingle": "complex64", "c16": "complex128", "c8": "complex64", "D": "complex128", "F": "complex64", "complex": "complex128",
           "double": "float64", "single": "float32", "f8": "float64", "f4": "float32", "d": "float64", "f": "float32", "float": "float64",
           "<c16": "complex128", "<c8": "complex64", "<f8": "float64", "<f4": "float32"}


def name_of(t) -> str:
    if isinstance(t, DT):
        return t.name
    s = str(t)
    for pre in ("np.", "numpy."):
        if s.startswith(pre):
            s = s[len(pre):]
    s = ALIASES.get(s, s)
    if s not in REALOF:
        raise TypeError(f"data type {s!r} not understood")
    return s


class DT(PyNative):
    def __init__(self, name):
        self.name = name
        self.char = CHAR[name]

    def __eq__(self, o):
        try:
            return name_of(o) == self.name
        except TypeError:
            return False

    def __hash__(self):
        return hash(self.name)

    def __str__(self):
        return self.name

    def __repr__(self):
        return f"dtype('{self.name}')"

    def type(self, v):
        outer = self

        class _Scalar(PyNative):
            dtype = outer

            @property
            def real(self_):
                class _Real(PyNative):
                    dtype = DT(REALOF[outer.name])
                return _Real()
        return _Scalar()


def install(it):
    """Register the numpy stubs on an interpreter."""
    it.overrides["np.dtype"] = _PyCall(lambda x: x if isinstance(x, DT) else DT(name_of(x)))
    for k in ("floating", "complexfloating", "integer"):
        it.overrides[f"np.{k}"] = f"np.{k}"
    it.overrides["np.issubdtype"] = _PyCall(lambda t, k: KIND[name_of(t)] == str(k).split(".")[-1])
    for nm in REALOF:
        it.overrides[f"np.{nm}"] = DT(nm)
    return it


# ---- ndarray model --------------------------------------------------------------------------------------

class NDArr(PyNative):
    """A dense array of exact numbers with numpy's basic indexing. Basic indexing (ints and slices) gives *views* that share the
    storage of the array they were taken from, as in numpy: `a[:, 0], a[:, 1] = a[:, 1], a[:, 0]` does not swap columns."""

    def __init__(self, data, shape=None, _base=None, _offset=0, _strides=None):
        if _base is not None:
            self._base, self._offset, self.shape, self._strides = _base, _offset, tuple(shape), tuple(_strides)
            return
        data = _plain(data)
        if shape is None:
            shape = []
            d = data
            while isinstance(d, list):
                shape.append(len(d))
                d = d[0] if d else None
            shape = tuple(shape)
        self.shape = tuple(shape)
        flat = []

        def walk(d):
            if isinstance(d, list):
                for x in d:
                    walk(x)
            else:
                flat.append(d)
        walk(data)
        n = 1
        for k in self.shape:
            n *= k
        if len(flat) != n:
            raise ValueError(f"setting an array element with a sequence: {len(flat)} values for shape {self.shape} (inhomogeneous)")
        self._base = flat
        self._offset = 0
        self._strides = _row_major(self.shape)

    # ---- storage ----
    def _positions(self):
        """storage positions of the elements in row-major order of this view"""
        pos = [self._offset]
        for n, st in zip(self.shape, self._strides):
            pos = [p_ + i * st for p_ in pos for i in range(n)]
        return pos

    @property
    def data(self):
        return _rebuild(self.flat(), self.shape) if self.shape else self._base[self._offset]

    @data.setter
    def data(self, nested):
        vals = NDArr(nested).flat() if isinstance(nested, (list, NDArr)) else [nested]
        for p_, v in zip(self._positions(), vals):
            self._base[p_] = v

    @property
    def ndim(self):
        return len(self.shape)

    @property
    def size(self):
        n = 1
        for s_ in self.shape:
            n *= s_
        return n

    def flat(self):
        return [self._base[p_] for p_ in self._positions()]

    def flatten(self):
        return NDArr(list(self.flat()), (self.size,))

    def ravel(self):
        return self.flatten()

    def __len__(self):
        if not self.shape:
            raise TypeError("len() of unsized object")
        return self.shape[0]

    def __iter__(self):
        for i in range(self.shape[0]):
            yield self[i]

    def _select(self, idx):
        if not isinstance(idx, tuple):
            idx = (idx,)
        if any(i is None or i is Ellipsis for i in idx):
            raise IndexError("newaxis / Ellipsis are not modelled")
        if len(idx) > len(self.shape):
            raise IndexError("too many indices for array")
        idx = tuple(idx) + (slice(None),) * (len(self.shape) - len(idx))
        off, shp, strd = self._offset, [], []
        for k, (i, n, st) in enumerate(zip(idx, self.shape, self._strides)):
            if isinstance(i, slice):
                r = range(*i.indices(n))
                off += (r.start if len(r) else 0) * st
                shp.append(len(r))
                strd.append(st * r.step)
            else:
                if isinstance(i, bool) or not isinstance(i, int):
                    raise IndexError(f"unsupported index {i!r}")
                if not -n <= i < n:
                    raise IndexError(f"index {i} is out of bounds for axis {k} with size {n}")
                off += (i % n if n else 0) * st
        return off, tuple(shp), tuple(strd)

    def __getitem__(self, idx):
        off, shp, strd = self._select(idx)
        if shp == ():
            return self._base[off]
        return NDArr(None, shp, _base=self._base, _offset=off, _strides=strd)

    def copy(self):
        return NDArr(_rebuild(self.flat(), self.shape), self.shape)

    def __setitem__(self, idx, value):
        """Basic indexing assignment; the value is a scalar or an array broadcastable to the selection (values are read before anything is written)."""
        off, shp, strd = self._select(idx)
        target = NDArr(None, shp, _base=self._base, _offset=off, _strides=strd)
        pos = target._positions()
        if isinstance(value, (list, tuple)):
            value = NDArr(list(value))
        if isinstance(value, NDArr):
            vshape = tuple(value.shape)
            while len(vshape) > len(shp) and vshape and vshape[0] == 1:
                vshape = vshape[1:]
            while len(vshape) < len(shp):
                vshape = (1,) + vshape
            if len(vshape) != len(shp) or any(a != b and a != 1 for a, b in zip(vshape, shp)):
                raise ValueError(f"could not broadcast input array from shape {value.shape} into shape {shp}")
            flat = value.flat()
            vstr = _row_major(vshape)
            vals = []
            for multi in _multi_indices(shp):
                k = sum((m_ if n != 1 else 0) * st for m_, n, st in zip(multi, vshape, vstr))
                vals.append(flat[k])
        else:
            vals = [value] * len(pos)
        for p_, v in zip(pos, vals):
            self._base[p_] = v

    # ---- elementwise arithmetic (same shape, or a scalar) ----
    def _ew(self, o, fn):
        if isinstance(o, NDArr):
            if o.shape != self.shape:
                if o.size == 1:
                    v = o.flat()[0]
                    return self._ew(v, fn)
                if self.size == 1:
                    v = self.flat()[0]
                    return NDArr(_rebuild([fn(v, y) for y in o.flat()], o.shape), o.shape)
                raise ValueError(f"operands could not be broadcast together with shapes {self.shape} {o.shape}")
            return NDArr(_rebuild([fn(x, y) for x, y in zip(self.flat(), o.flat())], self.shape), self.shape)
        if isinstance(o, (list, tuple)):
            return self._ew(NDArr(list(o)), fn)
        return NDArr(_rebuild([fn(x, o) for x in self.flat()], self.shape), self.shape)

    def __add__(self, o):
        return self._ew(o, lambda a, b: a + b)

    __radd__ = __add__

    def __sub__(self, o):
        return self._ew(o, lambda a, b: a - b)

    def __rsub__(self, o):
        return self._ew(o, lambda a, b: b - a)

    def __mul__(self, o):
        return self._ew(o, lambda a, b: a * b)

    __rmul__ = __mul__

    def __truediv__(self, o):
        return self._ew(o, lambda a, b: a / b)

    def __neg__(self):
        return self._ew(0, lambda a, b: -a)

    # ---- boolean arrays (results of elementwise comparisons) ----
    def __or__(self, o):
        return self._ew(o, lambda a, b: bool(a) or bool(b))

    __ror__ = __or__

    def __and__(self, o):
        return self._ew(o, lambda a, b: bool(a) and bool(b))

    __rand__ = __and__

    def __invert__(self):
        return self._ew(0, lambda a, b: not bool(a))

    def compare(self, o, fn):
        """numpy semantics of a comparison operator: elementwise, a boolean array"""
        return self._ew(o, lambda a, b: bool(fn(a, b)))

    def all(self, axis=None, **k):
        if axis is None:
            return all(bool(v) for v in self.flat())
        return self._reduce(axis, lambda vs: all(bool(v) for v in vs))

    def any(self, axis=None, **k):
        if axis is None:
            return any(bool(v) for v in self.flat())
        return self._reduce(axis, lambda vs: any(bool(v) for v in vs))

    def sum(self, axis=None, **k):
        if axis is None:
            out = 0
            for v in self.flat():
                out = out + (int(v) if isinstance(v, bool) else v)
            return out
        return self._reduce(axis, lambda vs: sum((int(v) if isinstance(v, bool) else v) for v in vs))

    def _reduce(self, axis, fn):
        nd = len(self.shape)
        if axis < 0:
            axis += nd
        if not 0 <= axis < nd:
            raise ValueError(f"axis {axis} is out of bounds for array of dimension {nd}")
        out_shape = tuple(n for k_, n in enumerate(self.shape) if k_ != axis)
        data = self.data
        vals = []
        for mi in _multi_indices(out_shape):
            col = []
            for j in range(self.shape[axis]):
                idx = list(mi[:axis]) + [j] + list(mi[axis:])
                v = data
                for i_ in idx:
                    v = v[i_]
                col.append(v)
            vals.append(fn(col))
        if not out_shape:
            return vals[0]
        return NDArr(_rebuild(vals, out_shape), out_shape)

    def truth(self):
        """bool(array) as NumPy defines it"""
        if self.size == 1:
            return bool(self.flat()[0])
        if self.size == 0:
            return False
        raise ValueError("The truth value of an array with more than one element is ambiguous. Use a.any() or a.all()")

    def reshape(self, *shape):
        if len(shape) == 1 and isinstance(shape[0], (tuple, list)):
            shape = tuple(shape[0])
        n = 1
        for v in shape:
            n *= v
        if n != self.size:
            raise ValueError(f"cannot reshape array of size {self.size} into shape {tuple(shape)}")
        return NDArr(_rebuild(self.flat(), tuple(shape)), tuple(shape))

    @property
    def T(self):
        return NDArr(None, tuple(reversed(self.shape)), _base=self._base, _offset=self._offset, _strides=tuple(reversed(self._strides)))

    def __eq__(self, o):
        return isinstance(o, NDArr) and o.shape == self.shape and o.flat() == self.flat()

    def __hash__(self):
        return hash((self.shape, tuple(self.flat())))

    def tobytes(self):
        """Exact content (the model keeps exact numbers, so this is injective on the values; the shape is NOT part of it, as in numpy)."""
        return repr(self.flat()).encode()

    def tolist(self):
        return _rebuild(self.flat(), self.shape) if self.shape else self._base[self._offset]

    def _render(self):
        """numpy's printing: 8 significant digits, elision beyond 1000 elements."""
        flat = self.flat()
        if len(flat) > 1000:
            flat = flat[:3] + ["..."] + flat[-3:]
        def one(v):
            if isinstance(v, str):
                return v
            try:
                return f"{float(v):.8g}"
            except (TypeError, ValueError):
                return repr(v)  # symbolic entries
        return "[" + ", ".join(one(v) for v in flat) + "]"

    def __repr__(self):
        return f"array({self._render()})"

    def __str__(self):
        return self._render()


def _row_major(shape):
    out, acc = [], 1
    for n in reversed(shape):
        out.append(acc)
        acc *= n
    return tuple(reversed(out))


def _multi_indices(shape):
    out = [()]
    for n in shape:
        out = [m_ + (i,) for m_ in out for i in range(n)]
    return out


def _plain(d):
    """nested lists / tuples / arrays -> nested lists"""
    if isinstance(d, NDArr):
        return d.tolist()
    if isinstance(d, (list, tuple)):
        return [_plain(x) for x in d]
    return d


def _rebuild(flat, shape):
    if not shape:
        return flat[0]
    if len(shape) == 1:
        return list(flat[:shape[0]])
    step = 1
    for n in shape[1:]:
        step *= n
    return [_rebuild(flat[i * step:(i + 1) * step], shape[1:]) for i in range(shape[0])]


def dot(a, b):
    """np.dot for (.., n) x (n,) and (m, n) x (n, k)."""
    a = a if isinstance(a, NDArr) else NDArr(list(a))
    b = b if isinstance(b, NDArr) else NDArr(list(b))
    if b.ndim == 1:
        if a.shape[-1] != b.shape[0]:
            raise ValueError(f"shapes {a.shape} and {b.shape} not aligned")
        fa, vb = a.flat(), b.flat()
        n = b.shape[0]
        out = [sum((fa[r * n + k] * vb[k] for k in range(n)), 0) for r in range(a.size // n)] if n else []
        shp = a.shape[:-1]
        return NDArr(_rebuild(out, shp), shp) if shp else out[0]
    if a.ndim == 2 and b.ndim == 2:
        if a.shape[1] != b.shape[0]:
            raise ValueError(f"shapes {a.shape} and {b.shape} not aligned")
        return NDArr([[sum((a.data[i][k] * b.data[k][j] for k in range(a.shape[1])), 0) for j in range(b.shape[1])] for i in range(a.shape[0])])
    raise ValueError("np.dot of these ranks is not modelled")


def _sliced_shape(idx, shape):
    out = []
    for i, n in zip(idx, shape):
        if isinstance(i, slice):
            out.append(len(range(*i.indices(n))))
    return out


def full(shape, v):
    shape = (shape,) if isinstance(shape, int) else tuple(shape)

    def build(k):
        if k == len(shape):
            return v
        return [build(k + 1) for _ in range(shape[k])]
    return NDArr(build(0), shape)


def allclose(a, b, rtol=0, atol=0, **k):
    """Exact model: tolerances are treated as `equal` (samples differ by far more than any tolerance)."""
    fa = a.flat() if isinstance(a, NDArr) else None
    fb = b.flat() if isinstance(b, NDArr) else None
    if fa is None and fb is None:
        return a == b
    if fa is None:
        fa = [a] * len(fb)
    elif fb is None:
        fb = [b] * len(fa)
    elif a.shape != b.shape:
        # numpy broadcasting of trailing axes only where one is a suffix of the other
        if len(fa) and len(fb) and len(fa) % len(fb) == 0 and a.shape[-len(b.shape):] == b.shape:
            fb = fb * (len(fa) // len(fb))
        elif len(fa) and len(fb) and len(fb) % len(fa) == 0 and b.shape[-len(a.shape):] == a.shape:
            fa = fa * (len(fb) // len(fa))
        else:
            raise ValueError(f"operands could not be broadcast together with shapes {a.shape} {b.shape}")
    return all(x == y for x, y in zip(fa, fb))


def install_arrays(it):
    def prod(x, axis=None, dtype=None, **k):
        if axis is None:
            out = 1
            for v in (x.flat() if isinstance(x, NDArr) else (NDArr(x).flat() if isinstance(x, (list, tuple)) and x and isinstance(x[0], (list, tuple, NDArr)) else x)):
                out *= v
            return out
        if axis == 0:
            parts = [p_ if isinstance(p_, NDArr) else NDArr(p_) for p_ in (x if not isinstance(x, NDArr) else [x[i] for i in range(x.shape[0])])]
            out = parts[0]
            for p_ in parts[1:]:
                out = out * p_
            return out
        raise NotImplementedError("np.prod along an axis other than 0")
    it.overrides["np.prod"] = _PyCall(prod)
    it.overrides["np.allclose"] = _PyCall(allclose)

    def isclose(a, b, rtol=0, atol=0, **k):
        """elementwise for arrays (exact model: tolerances are treated as `equal`, as in allclose)"""
        if isinstance(a, NDArr):
            return a.compare(b, lambda x, y: x == y)
        if isinstance(b, NDArr):
            return b.compare(a, lambda x, y: x == y)
        return a == b
    it.overrides["np.isclose"] = _PyCall(isclose)

    def _arr(x):
        return x if isinstance(x, NDArr) else NDArr(x) if isinstance(x, (list, tuple)) else None
    it.overrides["np.all"] = _PyCall(lambda x, axis=None, **k: (_arr(x).all(axis) if _arr(x) is not None else bool(x)))
    it.overrides["np.any"] = _PyCall(lambda x, axis=None, **k: (_arr(x).any(axis) if _arr(x) is not None else bool(x)))
    it.overrides["np.sum"] = _PyCall(lambda x, axis=None, **k: (_arr(x).sum(axis) if _arr(x) is not None else x))
    it.overrides["np.count_nonzero"] = _PyCall(lambda x, axis=None, **k: _arr(x).compare(0, lambda a_, b_: a_ != b_).sum(axis))
    it.overrides["np.logical_or"] = _PyCall(lambda a, b: _arr(a) | b)
    it.overrides["np.logical_and"] = _PyCall(lambda a, b: _arr(a) & b)
    it.overrides["np.logical_not"] = _PyCall(lambda a: ~_arr(a))
    it.overrides["np.zeros"] = _PyCall(lambda shape, **k: full(shape, 0))
    it.overrides["np.ones"] = _PyCall(lambda shape, **k: full(shape, 1))
    it.overrides["np.eye"] = _PyCall(lambda n, **k: NDArr([[1 if i == j else 0 for j in range(n)] for i in range(n)], (n, n)))
    def _to_dtype(x, dtype):
        """conversion to double precision: every single-precision scalar becomes the double of the same value; None if nothing has to change"""
        if dtype is None or "float64" not in str(dtype) or not isinstance(x, NDArr) or not any(isinstance(v, NPFloat32) for v in x.flat()):
            return None
        conv = lambda v: [conv(e) for e in v] if isinstance(v, list) else (float(v) if isinstance(v, NPFloat32) else v)  # noqa: E731
        return NDArr(conv(x.tolist()), x.shape)

    def array(x, dtype=None, **k):  # np.array copies
        x = x if isinstance(x, NDArr) else NDArr(x)
        return _to_dtype(x, dtype) or x.copy()

    def asarray(x, dtype=None, **k):  # np.asarray does not, unless the type has to change
        x = x if isinstance(x, NDArr) else NDArr(x)
        return _to_dtype(x, dtype) or x
    it.overrides["np.array"] = _PyCall(array)
    it.overrides["np.asarray"] = _PyCall(asarray)
    it.overrides["np.ascontiguousarray"] = it.overrides["np.asarray"]
    it.overrides["np.dot"] = _PyCall(dot)
    it.overrides["np.reshape"] = _PyCall(lambda a, shape, **k: (a if isinstance(a, NDArr) else NDArr(a)).reshape(shape))
    def as_arr(x):
        return x if isinstance(x, NDArr) else NDArr(x)

    def meshgrid(*xs, indexing="xy", **k):
        """NumPy semantics: with the default "xy" indexing the first two axes are swapped (shape (n1, n0, n2, ...))"""
        xs = [list(as_arr(x).flat()) for x in xs]
        lens = [len(x) for x in xs]
        shape = list(lens)
        if indexing == "xy" and len(xs) >= 2:
            shape[0], shape[1] = shape[1], shape[0]
        out = []
        for d, x in enumerate(xs):
            ax = d
            if indexing == "xy" and len(xs) >= 2 and d < 2:
                ax = 1 - d
            flat = [x[mi[ax]] for mi in _multi_indices(tuple(shape))]
            out.append(NDArr(_rebuild(flat, tuple(shape)), tuple(shape)))
        return out

    def stack(arrs, axis=0, **k):
        arrs = [as_arr(a) for a in arrs]
        if any(a.ndim != 1 for a in arrs) or len({a.shape for a in arrs}) != 1:
            raise NotImplementedError("np.stack of arrays that are not one-dimensional of equal length")
        rows = [list(a.flat()) for a in arrs]
        if axis in (0, -2):
            return NDArr(rows, (len(rows), len(rows[0])))
        if axis in (1, -1):
            n = len(rows[0])
            return NDArr([[r[i] for r in rows] for i in range(n)], (n, len(rows)))
        raise NotImplementedError("np.stack axis")

    def outer(a, b):
        a, b = as_arr(a), as_arr(b)
        fa, fb = list(a.flat()), list(b.flat())
        shape = tuple(a.shape) + tuple(b.shape)
        return NDArr(_rebuild([x * y for x in fa for y in fb], shape), shape)
    def take(a, indices, axis=None, **k):
        """np.take with a scalar index: the slice along `axis` (a copy in NumPy; read-only uses cannot tell)"""
        a = as_arr(a)
        if isinstance(indices, (list, tuple, NDArr)):
            raise NotImplementedError("np.take with an index array")
        if axis is None:
            return a.flat()[indices]
        nd = len(a.shape)
        if axis < 0:
            axis += nd
        if not 0 <= axis < nd:
            raise ValueError(f"axis {axis} is out of bounds for array of dimension {nd}")
        return a[tuple([slice(None)] * axis + [indices])]
    it.overrides["np.take"] = _PyCall(take)
    it.overrides["np.meshgrid"] = _PyCall(meshgrid)
    it.overrides["np.stack"] = _PyCall(stack)
    it.overrides["np.column_stack"] = _PyCall(lambda arrs, **k: stack(arrs, axis=1))
    it.overrides["np.multiply.outer"] = _PyCall(outer)
    it.overrides["np.outer"] = _PyCall(lambda a, b: outer(as_arr(a).ravel(), as_arr(b).ravel()))
    it.overrides["np.transpose"] = _PyCall(lambda a, *r, **k: as_arr(a).T)
    it.overrides["np.array2string"] = _PyCall(lambda x, **k: str(x))
    it.overrides["np.array_str"] = _PyCall(lambda x, **k: str(x))
    it.overrides["np.array_repr"] = _PyCall(lambda x, **k: repr(x))
    for nm in ("float64", "float32"):
        it.overrides.setdefault(f"np.{nm}", f"np.{nm}")
    return it


import functools as _functools


@_functools.total_ordering
class NPInt(PyNative):
    """A NumPy integer scalar (np.int64(5)): compares, hashes and converts like an integer, but is NOT an instance of Python's int,
    and prints as `np.int64(5)` under repr() (NumPy 2) - so `str((np.int64(2),))` is not C."""

    def __init__(self, v):
        self.v = int(v)

    def __int__(self):
        return self.v

    __index__ = __int__

    def __eq__(self, o):
        return (o.v if isinstance(o, NPInt) else o) == self.v

    def __lt__(self, o):
        return self.v < (o.v if isinstance(o, NPInt) else o)

    def __hash__(self):
        return hash(self.v)

    def __neg__(self):
        return NPInt(-self.v)

    def __mul__(self, o):
        return NPInt(self.v * int(o))

    __rmul__ = __mul__

    def __repr__(self):
        return f"np.int64({self.v})"

    def __str__(self):
        return str(self.v)


class NPFloat32(PyNative):
    """A NumPy single-precision scalar: its value is the float32 nearest to the number it was made from; str() prints the shortest decimal
    that identifies it *among float32 values* ('0.7'), which read back as a double is another number (0.7 != 0.699999988079071)."""

    def __init__(self, v):
        import struct

        self.v = struct.unpack("f", struct.pack("f", float(v)))[0]

    def __float__(self):
        return self.v

    def __eq__(self, o):
        return float(o) == self.v if isinstance(o, (int, float, NPFloat32)) else NotImplemented

    def __hash__(self):
        return hash(self.v)

    def __str__(self):
        import struct

        for d in range(1, 10):
            s = f"{self.v:.{d}g}"
            if struct.unpack("f", struct.pack("f", float(s)))[0] == self.v:
                return s if any(c in s for c in ".en") else s + ".0"
        return repr(self.v)

    def __repr__(self):
        return f"np.float32({self})"

    def __format__(self, spec):
        return format(self.v, spec)
