"""Abstract evaluation of formatter handlers (string-shape domain).

A handler `def _(self, oper: L.BinOp) -> str` is evaluated over an *abstract node*: its class facts
(precedence, op) are constants read from lnodes.py, the formatted text of each child is an opaque
atom. The result is the text skeleton the handler emits for that (parent class, child classes)
combination, e.g. ['(', <lhs>, ')', ' + ', <rhs>]. Nothing from /repo is executed; the evaluator
understands only the statement/expression forms the two formatters use and raises AnalysisError on
anything else (fail closed).
"""

from __future__ import annotations

import ast
import re
from dataclasses import dataclass, field

from .lnodes_model import LClass
from .model import AnalysisError, Module, Repo, dotted


@dataclass
class ANode:
    """Abstract LNode instance."""

    cls: LClass
    children: dict[str, object] = field(default_factory=dict)  # attr -> ANode | list[ANode] | str
    tag: str = ""  # atom name when formatted as a child
    inst: dict = field(default_factory=dict)  # facts of this very instance that override class facts (a precedence assigned in __init__)


class Atom:
    """Opaque formatted text of a child node (or of a value attribute)."""

    def __init__(self, node_tag: str, node=None):
        self.node_tag = node_tag
        self.node = node

    def __eq__(self, other):
        return isinstance(other, Atom) and other.node_tag == self.node_tag

    def __hash__(self):
        return hash(self.node_tag)


class Str:
    """Concatenation of literal pieces and atoms."""

    def __init__(self, parts=None):
        self.parts = list(parts or [])

    def __add__(self, other):
        if isinstance(other, Str):
            return Str(self.parts + other.parts)
        if isinstance(other, str):
            return Str(self.parts + [other])
        raise AnalysisError("fmt_eval: str + non-str")

    def __radd__(self, other):
        return Str([other] + self.parts)

    def flat(self):
        out = []
        for p in self.parts:
            if isinstance(p, str) and out and isinstance(out[-1], str):
                out[-1] += p
            elif isinstance(p, str) and p == "":
                continue
            else:
                out.append(p)
        return out

    def render(self, atom_text) -> str:
        return "".join(p if isinstance(p, str) else atom_text(p) for p in self.flat())

    def __repr__(self):
        return "Str(" + "".join(p if isinstance(p, str) else f"⟦{p.node_tag}⟧" for p in self.flat()) + ")"


class Unknown:
    def __init__(self, why=""):
        self.why = why


class HandlerTable:
    """singledispatchmethod registrations of Formatter.__call__ in one backend module."""

    def __init__(self, repo: Repo, modname: str):
        self.repo = repo
        self.mod: Module = repo.mod(modname)
        self.table: dict[str, ast.FunctionDef] = {}
        self.default: ast.FunctionDef | None = None
        cls = self.mod.cls("Formatter")
        for st in cls.body:
            if not isinstance(st, ast.FunctionDef):
                continue
            regs = []
            is_default = False
            for d in st.decorator_list:
                if isinstance(d, ast.Name) and d.id == "singledispatchmethod" and st.name == "__call__":
                    is_default = True
                dn = dotted(d.func) if isinstance(d, ast.Call) else dotted(d)
                if dn == "__call__.register":
                    if isinstance(d, ast.Call) and d.args:
                        regs.append(dotted(d.args[0]))
                    else:
                        ann = st.args.args[1].annotation if len(st.args.args) > 1 else None
                        if ann is None:
                            raise AnalysisError(f"{modname}: register without annotation at line {st.lineno}")
                        regs.append(dotted(ann))
            if is_default:
                self.default = st
            for r in regs:
                if r is None:
                    raise AnalysisError(f"{modname}: unresolvable register target at line {st.lineno}")
                self.table[r.split(".")[-1]] = st
        if len(self.table) < 10:
            raise AnalysisError(f"{modname}: fewer than 10 formatter registrations found")
        self.helpers = {st.name: st for st in cls.body if isinstance(st, ast.FunctionDef)}

    def resolve(self, c: LClass) -> ast.FunctionDef | None:
        for name in [c.name] + c.bases:
            if name in self.table:
                return self.table[name]
        return None


class Eval:
    def __init__(self, table: HandlerTable, classes: dict[str, LClass], prec: dict[str, int] | None = None):
        self.table = table
        self.classes = classes
        self.prec = prec
        self.notes: set[str] = set()

    def render(self, s: "Str") -> str:
        """Concrete text of a skeleton whose atoms carry their nodes."""

        def atom_text(a: Atom):
            if a.node is None:
                return "<" + a.node_tag.replace(" ", "_") + ">"  # opaque payload (type name, table values)
            if a.node.cls.kind == "call":
                return "fn(" + ", ".join(self.render(self.skeleton_or_leaf(x)) for x in a.node.children["args"]) + ")"
            return self.render(self.skeleton(a.node))

        return s.render(atom_text)

    def skeleton_or_leaf(self, n: "ANode") -> "Str":
        return Str([Atom(n.tag, n)])

    def skeleton(self, node: ANode) -> Str:
        h = self.table.resolve(node.cls)
        if h is None:
            raise AnalysisError(f"no formatter handler for {node.cls.name}")
        param = h.args.args[1].arg
        env = {param: node}
        r = self._block(h.body, env)
        if not isinstance(r, _Ret):
            raise AnalysisError(f"handler for {node.cls.name} does not return on the evaluated path")
        if isinstance(r.value, str):
            return Str([r.value])
        if not isinstance(r.value, Str):
            raise AnalysisError(f"handler for {node.cls.name} returns a non-string shape")
        return r.value

    # ---- statements -------------------------------------------------------------------------
    def _block(self, stmts, env):
        for st in stmts:
            r = self._stmt(st, env)
            if isinstance(r, _Ret):
                return r
        return None

    def _stmt(self, st, env):
        if isinstance(st, ast.Expr):
            if isinstance(st.value, ast.Constant):
                return None
            self._expr(st.value, env)
            return None
        if isinstance(st, ast.Return):
            return _Ret(self._expr(st.value, env))
        if isinstance(st, ast.Assign):
            v = self._expr(st.value, env)
            for t in st.targets:
                self._store(t, v, env)
            return None
        if isinstance(st, ast.AnnAssign):
            if st.value is not None:
                self._store(st.target, self._expr(st.value, env), env)
            return None
        if isinstance(st, ast.AugAssign) and isinstance(st.op, ast.Add):
            cur = self._expr(_load(st.target), env)
            v = self._expr(st.value, env)
            self._store(st.target, self._add(cur, v), env)
            return None
        if isinstance(st, ast.If):
            c = self._expr(st.test, env)
            if not isinstance(c, bool):
                raise AnalysisError(f"fmt_eval: undecidable condition `{ast.unparse(st.test)}`")
            return self._block(st.body if c else st.orelse, env)
        if isinstance(st, ast.For):
            it = self._expr(st.iter, env)
            if not isinstance(it, list):
                raise AnalysisError(f"fmt_eval: cannot iterate `{ast.unparse(st.iter)}`")
            for x in it:
                self._store(st.target, x, env)
                r = self._block(st.body, env)
                if isinstance(r, _Ret):
                    return r
            return None
        if isinstance(st, ast.Assert) or isinstance(st, ast.Pass):
            return None
        if isinstance(st, ast.Raise):
            raise AnalysisError("handler raises: " + ast.unparse(st)[:60])
        raise AnalysisError(f"fmt_eval: unsupported statement `{ast.unparse(st)[:60]}`")

    def _store(self, t, v, env):
        if isinstance(t, ast.Name):
            env[t.id] = v
        elif isinstance(t, ast.Subscript):
            base = self._expr(t.value, env)
            idx = self._expr(t.slice, env)
            if isinstance(base, list) and isinstance(idx, int):
                base[idx] = v
            else:
                raise AnalysisError("fmt_eval: unsupported subscript store")
        elif isinstance(t, ast.Tuple) and isinstance(v, (list, tuple)):
            for a, b in zip(t.elts, v):
                self._store(a, b, env)
        else:
            raise AnalysisError(f"fmt_eval: unsupported store target `{ast.unparse(t)}`")

    # ---- expressions ------------------------------------------------------------------------
    def _add(self, a, b):
        if isinstance(a, str) and isinstance(b, str):
            return a + b
        if isinstance(a, (str, Str)) and isinstance(b, (str, Str)):
            a = a if isinstance(a, Str) else Str([a])
            b = b if isinstance(b, Str) else Str([b])
            return a + b
        if isinstance(a, int) and isinstance(b, int):
            return a + b
        if isinstance(a, list) and isinstance(b, list):
            return a + b
        raise AnalysisError("fmt_eval: unsupported +")

    def _expr(self, e, env):
        if isinstance(e, ast.Constant):
            return e.value
        if isinstance(e, ast.Name):
            if e.id in env:
                return env[e.id]
            # a module-level literal constant of the formatter module (a size limit, a keyword table)
            mv = self.table.mod.assigns.get(e.id)
            if mv is not None:
                try:
                    from .model import const_value
                    return const_value(mv)
                except ValueError:
                    pass
            raise AnalysisError(f"fmt_eval: unknown name {e.id}")
        if isinstance(e, ast.JoinedStr):
            out = Str()
            for v in e.values:
                if isinstance(v, ast.Constant):
                    out = out + str(v.value)
                else:
                    x = self._expr(v.value, env)
                    if isinstance(x, (int, float, complex)) and not isinstance(x, bool):
                        spec = ""
                        if v.format_spec is not None:
                            sp = self._expr(v.format_spec, env)
                            spec = sp if isinstance(sp, str) else "".join(sp.flat())
                        try:
                            out = out + format(x, spec)
                        except (ValueError, TypeError) as ex:
                            raise AnalysisError(f"fmt_eval: format spec {spec!r} invalid for {type(x).__name__}: {ex}")
                    else:
                        out = out + self._tostr(x)
            return out
        if isinstance(e, ast.BinOp) and isinstance(e.op, ast.Add):
            return self._add(self._expr(e.left, env), self._expr(e.right, env))
        if isinstance(e, ast.Attribute):
            d = dotted(e)
            if d is not None and ".PRECEDENCE." in "." + d:
                nm = d.split(".")[-1]
                if self.prec is None or nm not in self.prec:
                    raise AnalysisError(f"fmt_eval: unknown precedence constant {d}")
                return self.prec[nm]
            if d is not None and d.split(".")[0] in ("L", "lnodes") and d.split(".")[-1] in self.classes:
                return _ClsRef(d.split(".")[-1])
            if d is not None and re.fullmatch(r"(L|lnodes)\.DataType\.[A-Z]+", d):
                return "DataType." + d.split(".")[-1]
            base = self._expr(e.value, env)
            if isinstance(base, (int, float, complex)) and not isinstance(base, bool) and e.attr in ("real", "imag"):
                return getattr(base, e.attr)
            if isinstance(base, ANode):
                if e.attr == "precedence":
                    if "precedence" in base.inst:
                        return base.inst["precedence"]
                    if base.cls.precedence is None:
                        raise AnalysisError(f"{base.cls.name} has no precedence")
                    return base.cls.precedence
                if e.attr == "op":
                    return base.cls.op
                if e.attr == "dtype":
                    # the sample operands of the grammar checks are real-valued unless the instance says otherwise
                    return base.inst.get("dtype", "DataType.REAL")
                if e.attr in base.children:
                    v = base.children[e.attr]
                    if isinstance(v, str) and v.isupper():
                        return Str([Atom(f"{base.tag}.{e.attr}")])  # opaque payload (e.g. table values)
                    return v
                if e.attr == "name":
                    return Str([Atom(base.tag + ".name")])
                # any other class-level constant of the node's class (looked up through its bases in lnodes.py)
                try:
                    from .lnodes_model import LNODES as _LN
                    cv = self.table.repo.class_attr(self.table.repo.mod(_LN), base.cls.name, e.attr)
                except Exception:
                    cv = None
                if isinstance(cv, ast.Constant):
                    return cv.value
                raise AnalysisError(f"fmt_eval: attribute {e.attr} of {base.cls.name} not modelled")
            raise AnalysisError(f"fmt_eval: attribute on non-node `{ast.unparse(e)}`")
        if isinstance(e, ast.Subscript):
            base = self._expr(e.value, env)
            idx = self._expr(e.slice, env)
            if isinstance(base, (list, tuple)) and isinstance(idx, int):
                return base[idx]
            if isinstance(base, dict):
                k = idx if not isinstance(idx, Str) else "".join(idx.flat())
                if k in base:
                    return base[k]
                raise AnalysisError(f"fmt_eval: key {k!r} missing in dict literal")
            raise AnalysisError(f"fmt_eval: unsupported subscript `{ast.unparse(e)}`")
        if isinstance(e, ast.Dict):
            return {self._expr(k, env): self._expr(v, env) for k, v in zip(e.keys, e.values)}
        if isinstance(e, (ast.List, ast.Tuple)):
            return [self._expr(x, env) for x in e.elts]
        if isinstance(e, ast.Compare) and len(e.ops) == 1:
            a = self._expr(e.left, env)
            b = self._expr(e.comparators[0], env)
            op = e.ops[0]
            if isinstance(op, (ast.Is, ast.IsNot)) and (b is None or isinstance(b, bool)):
                r = a is b
                return r if isinstance(op, ast.Is) else not r
            if isinstance(a, (int, float)) and isinstance(b, (int, float)) and not isinstance(a, bool):
                return {
                    ast.GtE: a >= b, ast.Gt: a > b, ast.LtE: a <= b, ast.Lt: a < b, ast.Eq: a == b, ast.NotEq: a != b,
                }[type(op)]
            if isinstance(a, str) and isinstance(b, str) and isinstance(op, (ast.Eq, ast.NotEq)):
                return (a == b) if isinstance(op, ast.Eq) else (a != b)
            if isinstance(a, str) and isinstance(b, str) and isinstance(op, (ast.In, ast.NotIn)):
                return (a in b) if isinstance(op, ast.In) else (a not in b)
            raise AnalysisError(f"fmt_eval: undecidable comparison `{ast.unparse(e)}`")
        if isinstance(e, ast.BoolOp):
            vals = [self._expr(v, env) for v in e.values]
            if all(isinstance(v, bool) for v in vals):
                return all(vals) if isinstance(e.op, ast.And) else any(vals)
            raise AnalysisError("fmt_eval: undecidable boolean")
        if isinstance(e, ast.UnaryOp) and isinstance(e.op, ast.Not):
            v = self._expr(e.operand, env)
            if isinstance(v, bool):
                return not v
            raise AnalysisError("fmt_eval: undecidable not")
        if isinstance(e, (ast.ListComp, ast.GeneratorExp)):
            if len(e.generators) != 1 or e.generators[0].ifs:
                raise AnalysisError("fmt_eval: unsupported comprehension")
            g = e.generators[0]
            it = self._expr(g.iter, env)
            if not isinstance(it, (list, tuple)):
                raise AnalysisError("fmt_eval: comprehension over non-list")
            out = []
            for x in it:
                env2 = dict(env)
                self._store(g.target, x, env2)
                out.append(self._expr(e.elt, env2))
            return out
        if isinstance(e, ast.IfExp):
            c = self._expr(e.test, env)
            if not isinstance(c, bool):
                raise AnalysisError(f"fmt_eval: undecidable condition `{ast.unparse(e.test)}`")
            return self._expr(e.body if c else e.orelse, env)
        if isinstance(e, ast.Call):
            return self._call(e, env)
        raise AnalysisError(f"fmt_eval: unsupported expression `{ast.unparse(e)[:60]}`")

    def _tostr(self, x):
        if isinstance(x, Str):
            return x
        if isinstance(x, (str, int, float, complex)):
            return Str([str(x)])
        if x is None:
            return Str(["None"])
        raise AnalysisError("fmt_eval: cannot render value in f-string")

    def _call(self, e, env):
        fn = dotted(e.func)
        if fn == "self":  # self(child): formatted text of a child = atom
            x = self._expr(e.args[0], env)
            if isinstance(x, ANode):
                return Str([Atom(x.tag, x)])
            raise AnalysisError("fmt_eval: self(<non-node>)")
        if fn == "isinstance" and len(e.args) == 2:
            x = self._expr(e.args[0], env)
            if isinstance(x, (int, float, complex, str)) and not isinstance(x, ANode):
                targets = e.args[1].elts if isinstance(e.args[1], ast.Tuple) else ([e.args[1].left, e.args[1].right] if isinstance(e.args[1], ast.BinOp) else [e.args[1]])
                tn = {(dotted(t) or "").split(".")[-1] for t in targets}
                pyt = {"complex": complex, "float": float, "int": int, "str": str, "bool": bool, "Integral": int, "Real": float}
                return any(type(x) is pyt[n] or (n in ("Real",) and isinstance(x, (int, float))) for n in tn if n in pyt)
            if isinstance(x, ANode):
                def _flat(t_):
                    if isinstance(t_, ast.Tuple):
                        return [y for el in t_.elts for y in _flat(el)]
                    if isinstance(t_, ast.BinOp) and isinstance(t_.op, ast.BitOr):
                        return _flat(t_.left) + _flat(t_.right)
                    return [t_]
                targets = _flat(e.args[1])
                names = set()
                for t in targets:
                    d = dotted(t)
                    if d is None:
                        # a local tuple of classes
                        v = env.get(getattr(t, "id", None))
                        if isinstance(v, list) and all(isinstance(y, _ClsRef) for y in v):
                            names |= {y.name for y in v}
                            continue
                        raise AnalysisError("fmt_eval: isinstance target not resolvable")
                    if d in env and isinstance(env[d], list):
                        names |= {y.name for y in env[d] if isinstance(y, _ClsRef)}
                    else:
                        names.add(d.split(".")[-1])
                return bool(names & set([x.cls.name] + x.cls.bases))
            raise AnalysisError("fmt_eval: isinstance on non-node")
        if isinstance(e.func, ast.Attribute) and e.func.attr in ("startswith", "endswith") and len(e.args) == 1:
            base = self._expr(e.func.value, env)
            pre = self._expr(e.args[0], env)
            if isinstance(pre, Str):
                pre = "".join(pre.flat()) if all(isinstance(q, str) for q in pre.flat()) else None
            if isinstance(base, (str, Str)) and isinstance(pre, str):
                text = base if isinstance(base, str) else self.render(base)
                return text.startswith(pre) if e.func.attr == "startswith" else text.endswith(pre)
            raise AnalysisError("fmt_eval: undecidable startswith")
        if isinstance(e.func, ast.Attribute) and e.func.attr == "get" and len(e.args) in (1, 2):
            base = self._expr(e.func.value, env)
            if isinstance(base, dict):
                k = self._expr(e.args[0], env)
                if isinstance(k, Str):
                    k = "".join(k.flat()) if all(isinstance(q, str) for q in k.flat()) else None
                if k is None:
                    raise AnalysisError("fmt_eval: dict.get with opaque key")
                return base.get(k, self._expr(e.args[1], env) if len(e.args) == 2 else None)
        if isinstance(e.func, ast.Attribute) and e.func.attr in ("append", "extend", "insert") and isinstance(e.func.value, ast.Name):
            base = self._expr(e.func.value, env)
            if isinstance(base, list):
                vals = [self._expr(a, env) for a in e.args]
                if e.func.attr == "append" and len(vals) == 1:
                    base.append(vals[0])
                    return None
                if e.func.attr == "extend" and len(vals) == 1 and isinstance(vals[0], list):
                    base.extend(vals[0])
                    return None
                if e.func.attr == "insert" and len(vals) == 2 and isinstance(vals[0], int):
                    base.insert(vals[0], vals[1])
                    return None
        if fn == "len":
            x = self._expr(e.args[0], env)
            if isinstance(x, (list, tuple)):
                return len(x)
        if fn in ("enumerate", "zip", "reversed", "list", "tuple"):
            args = [self._expr(a, env) for a in e.args]
            if all(isinstance(a, (list, tuple)) for a in args):
                if fn == "enumerate":
                    return [[i, x] for i, x in enumerate(args[0])]
                if fn == "zip":
                    return [list(t) for t in zip(*args)]
                if fn == "reversed":
                    return list(reversed(args[0]))
                return list(args[0])
        if fn == "range":
            args = [self._expr(a, env) for a in e.args]
            if all(isinstance(a, int) for a in args):
                return list(range(*args))
        if fn in ("np.prod", "numpy.prod", "math.prod", "sum", "min", "max", "len", "abs") and len(e.args) == 1 and not e.keywords:
            v = self._expr(e.args[0], env)
            nums = list(v) if isinstance(v, (list, tuple)) else None
            if fn == "len" and isinstance(v, (list, tuple)):
                return len(v)
            if fn == "abs" and isinstance(v, (int, float)) and not isinstance(v, bool):
                return abs(v)
            if nums is not None and all(isinstance(x, (int, float)) and not isinstance(x, bool) for x in nums):
                if fn.endswith("prod"):
                    out = 1
                    for x in nums:
                        out *= x
                    return out
                if fn in ("sum", "min", "max") and (nums or fn == "sum"):
                    return {"sum": sum, "min": min, "max": max}[fn](nums)
        if fn in ("any", "all") and len(e.args) == 1:
            vals = self._expr(e.args[0], env)
            if isinstance(vals, (list, tuple)) and all(isinstance(v, bool) for v in vals):
                return any(vals) if fn == "any" else all(vals)
            raise AnalysisError(f"fmt_eval: undecidable {fn}()")
        if fn == "str":
            return self._tostr(self._expr(e.args[0], env))
        if isinstance(e.func, ast.Attribute) and e.func.attr == "join":
            sep = self._expr(e.func.value, env)
            items = self._expr(e.args[0], env)
            if isinstance(sep, (str, Str)) and isinstance(items, list):
                out = Str()
                for i, it in enumerate(items):
                    if i:
                        out = out + sep
                    out = out + self._tostr(it)
                return out
        modfuncs = {k: f for k, f in self.table.mod.funcs.items() if "." not in k}
        inline = None
        if fn in modfuncs:
            inline = (modfuncs[fn].node, 0)
        elif fn and fn.startswith("self.") and fn.count(".") == 1 and fn.split(".")[1] in self.table.helpers and fn.split(".")[1] != "__call__" \
                and len(e.args) + len(e.keywords) > 1:
            hnode = self.table.helpers[fn.split(".")[1]]
            static = any((dotted(d_) or "").split(".")[-1] == "staticmethod" for d_ in hnode.decorator_list)
            inline = (hnode, 0 if static else 1)
        if inline is not None:
            h, skip = inline
            params = [a.arg for a in h.args.args][skip:]
            vals = [self._expr(a, env) for a in e.args]
            kws = {k.arg: self._expr(k.value, env) for k in e.keywords}
            henv = {"self": env.get("self")} if skip else {}
            nd = len(h.args.defaults)
            for i, p_ in enumerate(params):
                if i < len(vals):
                    henv[p_] = vals[i]
                elif p_ in kws:
                    henv[p_] = kws[p_]
                elif i >= len(params) - nd:
                    henv[p_] = self._expr(h.args.defaults[i - (len(params) - nd)], {})
                else:
                    raise AnalysisError(f"fmt_eval: missing argument {p_} in call of {fn}")
            r = self._block(h.body, henv)
            return r.value if isinstance(r, _Ret) else None
        if fn and fn.startswith("self.") and fn.split(".")[1] in self.table.helpers:
            x = self._expr(e.args[0], env) if e.args else None
            if isinstance(x, (int, float, complex)) and not isinstance(x, bool):
                # interpret the helper (e.g. _format_number) on the concrete literal value
                h = self.table.helpers[fn.split(".")[1]]
                params = [a.arg for a in h.args.args]
                try:
                    r = self._block(h.body, {params[1]: x} if len(params) > 1 else {})
                    if not isinstance(r, _Ret):
                        raise AnalysisError(f"fmt_eval: helper {fn} does not return")
                    v = r.value
                    return v if isinstance(v, Str) else Str([str(v)])
                except AnalysisError as ex:
                    # the helper's number formatting is not interpretable (e.g. run-time precision): fall back to
                    # a reference rendering of the value; digit counts are LIT-DIGITS' business
                    self.notes.add(f"helper {fn} not interpretable ({ex}); literal rendered by reference")
                    if isinstance(x, complex):
                        return Str([f"({x.real!r}+I*{x.imag!r})"])
                    return Str([repr(x)])
            # otherwise: opaque text derived from its argument
            tag = x.node_tag if isinstance(x, Atom) else (x.tag if isinstance(x, ANode) else "value")
            if isinstance(x, Str):
                return x
            return Str([Atom(f"{fn.split('.')[1]}({tag})")])
        raise AnalysisError(f"fmt_eval: unsupported call `{ast.unparse(e)[:60]}`")


class _ClsRef:
    def __init__(self, name):
        self.name = name


class _Ret:
    def __init__(self, value):
        self.value = value


def _load(t):
    import copy

    t2 = copy.deepcopy(t)
    for n in ast.walk(t2):
        if hasattr(n, "ctx"):
            n.ctx = ast.Load()
    return t2
