"""Interpretation of the backward slice of one stored value inside a large function.

The IR builders (`_compute_integral_ir`, `_compute_expression_ir`, ...) are hundreds of lines around UFL
objects; what a property needs from them is usually one stored value ("the constant offsets", "the
coefficient numbering").  `value_of` finds the statement that stores that value, collects - walking
outwards through the enclosing blocks - the earlier statements that define what the stored expression
reads, and interprets exactly those statements (absint) in an environment of sample inputs: function
parameters and the targets of enclosing loops come from the caller.  Helper functions of the repository
called from the slice are interpreted like any other callee, so extracting or inlining a helper, renaming
locals or restructuring control flow does not change the verdict.

Fail closed: a slice that needs something the environment / the interpreter does not provide raises
AnalysisError (exit 2), never a verdict.
"""

from __future__ import annotations

import ast

from .model import AnalysisError


def _mutated(st) -> set[str]:
    out = set()
    for n in ast.walk(st):
        if isinstance(n, (ast.Assign, ast.AnnAssign, ast.AugAssign)):
            for t in ([n.target] if not isinstance(n, ast.Assign) else n.targets):
                for x in ast.walk(t):
                    if isinstance(x, ast.Name) and isinstance(x.ctx, ast.Store):
                        out.add(x.id)
                    if isinstance(x, (ast.Subscript, ast.Attribute)) and isinstance(x.ctx, ast.Store):
                        b = x
                        while isinstance(b, (ast.Subscript, ast.Attribute)):
                            b = b.value
                        if isinstance(b, ast.Name):
                            out.add(b.id)
        if isinstance(n, ast.NamedExpr):
            out.add(n.target.id)
        if isinstance(n, ast.Call) and isinstance(n.func, ast.Attribute) and n.func.attr in ("append", "extend", "insert", "update", "setdefault", "add", "pop", "remove"):
            b = n.func.value
            while isinstance(b, (ast.Subscript, ast.Attribute)):
                b = b.value
            if isinstance(b, ast.Name):
                out.add(b.id)
        if isinstance(n, (ast.For, ast.comprehension)):
            for x in ast.walk(n.target):
                if isinstance(x, ast.Name):
                    out.add(x.id)
        if isinstance(n, (ast.With,)):
            for i in n.items:
                if i.optional_vars is not None:
                    for x in ast.walk(i.optional_vars):
                        if isinstance(x, ast.Name):
                            out.add(x.id)
    return out


def _loads(node) -> set[str]:
    return {x.id for x in ast.walk(node) if isinstance(x, ast.Name) and isinstance(x.ctx, ast.Load)}


def _blocks(st):
    for attr in ("body", "orelse", "finalbody"):
        b = getattr(st, attr, None)
        if isinstance(b, list) and b and isinstance(b[0], ast.stmt):
            yield b
    for h in getattr(st, "handlers", []) or []:
        yield h.body


def _path_to(fnode, target_stmt):
    """[(block, index)] from the function body down to the block containing target_stmt."""
    def rec(block):
        for i, st in enumerate(block):
            if st is target_stmt:
                return [(block, i)]
            if isinstance(st, (ast.FunctionDef, ast.AsyncFunctionDef, ast.ClassDef)):
                continue
            for b in _blocks(st):
                r = rec(b)
                if r:
                    return [(block, i)] + r
        return None
    return rec(fnode.body)


def find_store(fnode, key=None, name=None, subscript_only=False):
    """(statement, value expression) of the last store of dict key `key` (subscript store or dict-literal entry) or of local `name`."""
    found = None

    def visit(block):
        nonlocal found
        for st in block:
            if isinstance(st, (ast.FunctionDef, ast.AsyncFunctionDef, ast.ClassDef)):
                continue
            if isinstance(st, (ast.Assign, ast.AnnAssign)) and getattr(st, "value", None) is not None:
                targets = st.targets if isinstance(st, ast.Assign) else [st.target]
                for t in targets:
                    if key is not None and isinstance(t, ast.Subscript) and isinstance(t.slice, ast.Constant) and t.slice.value == key:
                        found = (st, st.value)
                    if name is not None and isinstance(t, ast.Name) and t.id == name:
                        found = (st, st.value)
            if key is not None and not subscript_only and isinstance(st, (ast.Assign, ast.AnnAssign, ast.Expr, ast.Return)) and getattr(st, "value", None) is not None:
                for d in ast.walk(st.value):
                    if isinstance(d, ast.Dict):
                        for k_, v_ in zip(d.keys, d.values):
                            if isinstance(k_, ast.Constant) and k_.value == key:
                                found = (st, v_)
                    if isinstance(d, ast.Call):
                        # dict(key=...) or a record constructor called with keywords (IntegralIR(enabled_coefficients=...))
                        fname = d.func.id if isinstance(d.func, ast.Name) else (d.func.attr if isinstance(d.func, ast.Attribute) else "")
                        for kw in d.keywords:
                            if kw.arg == key and (fname == "dict" or fname[:1].isupper()):
                                found = (st, kw.value)
            for b in _blocks(st):
                visit(b)
    visit(fnode.body)
    return found


def slice_for(fnode, stmt, value) -> list:
    """Statements (in execution order) that define what `value` reads at `stmt`."""
    path = _path_to(fnode, stmt)
    if path is None:
        raise AnalysisError("sliceint: statement not found in function")
    needed = _loads(value)
    if isinstance(stmt, (ast.Assign, ast.AnnAssign)) and value is not stmt.value:
        pass
    chosen = []
    for depth in range(len(path) - 1, -1, -1):
        block, idx = path[depth]
        for st in reversed(block[:idx]):
            if isinstance(st, (ast.FunctionDef, ast.AsyncFunctionDef)):
                if st.name in needed:
                    chosen.append(st)
                continue
            if _mutated(st) & needed:
                chosen.append(st)
                needed |= _loads(st)
        # the compound statement we are inside of: its loop targets are inputs (sample environment)
    chosen.reverse()
    return chosen


def _last_mutation(fnode, name):
    """Last top-most statement (source order) that changes local `name` (assignment, subscript store, append in a loop...)."""
    last = None

    def visit(block):
        nonlocal last
        for st in block:
            if isinstance(st, (ast.FunctionDef, ast.AsyncFunctionDef, ast.ClassDef)):
                continue
            if name in _mutated(st):
                last = st
                continue   # the whole compound statement is the unit
            for b in _blocks(st):
                visit(b)
    visit(fnode.body)
    return last


def value_of(it, func, env, key=None, name=None, final=False):
    """Interpret the slice of the stored value on the sample environment `env` (mutated in place); returns the value.

    key:  the value stored under dict key `key` (subscript store, dict literal entry)
    name: the local `name` after the last statement that changes it
    final (with key): the entry `key` of the dict it is stored into, after the last store and the conditionals around it"""
    if name is not None and key is None:
        stmt = _last_mutation(func.node, name)
        if stmt is None:
            raise AnalysisError(f"sliceint: local {name!r} is never assigned in {func.key}")
        probe = ast.Tuple(elts=[ast.Name(id=name, ctx=ast.Load())] + [ast.Name(id=n, ctx=ast.Load()) for n in sorted(_loads(stmt))], ctx=ast.Load())
        chosen = slice_for(func.node, stmt, probe) + [stmt]
        it.ctx.append(func.module)
        try:
            r = it.block(chosen, env)
            if r is not None:
                raise AnalysisError(f"sliceint: the slice of {name!r} leaves the function early")
            if name not in env:
                raise AnalysisError(f"sliceint: {name!r} not defined by its slice")
            return env[name]
        finally:
            it.ctx.pop()
    if final and key is not None:
        found = find_store(func.node, key=key, subscript_only=True)
        if found is None:
            if find_store(func.node, key=key) is not None:
                # stored once, as a dict-literal entry / constructor keyword: its value at that statement is final
                return value_of(it, func, env, key=key)
            raise AnalysisError(f"sliceint: no subscript store of {key!r} in {func.key}")
        stmt, _v = found
        base = stmt.targets[0] if isinstance(stmt, ast.Assign) else stmt.target
        while isinstance(base, (ast.Subscript, ast.Attribute)):
            base = base.value
        if not isinstance(base, ast.Name):
            raise AnalysisError(f"sliceint: store of {key!r} is not into a named dict")
        path = _path_to(func.node, stmt)
        # lift through enclosing conditionals (their tests decide whether the store happens), not through loops
        top = stmt
        for depth in range(len(path) - 2, -1, -1):
            block, idx = path[depth]
            parent = block[idx]
            if isinstance(parent, (ast.If, ast.Try, ast.With)):
                top = parent
            else:
                break
        probe = ast.Tuple(elts=[ast.Name(id=base.id, ctx=ast.Load())] + [ast.Name(id=n, ctx=ast.Load()) for n in sorted(_loads(top))], ctx=ast.Load())
        chosen = slice_for(func.node, top, probe) + [top]
        it.ctx.append(func.module)
        try:
            r = it.block(chosen, env)
            if r is not None:
                raise AnalysisError(f"sliceint: the slice of {key!r} leaves the function early")
            d = env.get(base.id)
            if not isinstance(d, dict) or key not in d:
                raise AnalysisError(f"sliceint: {base.id}[{key!r}] not defined by its slice")
            return d[key]
        finally:
            it.ctx.pop()
    found = find_store(func.node, key=key, name=name)
    if found is None:
        raise AnalysisError(f"sliceint: no store of {key or name!r} in {func.key}")
    stmt, value = found
    chosen = slice_for(func.node, stmt, value)
    it.ctx.append(func.module)
    try:
        r = it.block(chosen, env)
        if r is not None:
            raise AnalysisError(f"sliceint: the slice of {key or name!r} leaves the function early")
        return it.expr(value, env)
    finally:
        it.ctx.pop()
