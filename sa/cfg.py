"""E2: structured control-flow graph with exceptional edges, plus the few path queries rules use.

One graph per function over the statement kinds the repository uses. Nodes are statements (or the
header part of a compound statement); edges are normal ('n') or exceptional ('e'). `finally`
bodies are duplicated per continuation (normal / exception / return / break / continue), which
keeps path queries exact without path-sensitivity tricks.
"""

from __future__ import annotations

import ast
from collections import defaultdict


class Node:
    __slots__ = ("id", "kind", "ast", "label", "loop", "try_depth")

    def __init__(self, id, kind, astnode=None, label=""):
        self.id = id
        self.kind = kind  # entry exit raise stmt test iter with handler join
        self.ast = astnode
        self.label = label

    @property
    def lineno(self):
        return getattr(self.ast, "lineno", None)

    def __repr__(self):
        t = ""
        if self.ast is not None:
            try:
                t = ast.unparse(self.ast).split("\n")[0][:50]
            except Exception:
                t = type(self.ast).__name__
        return f"<{self.id}:{self.kind}:{self.label or t}>"


def _cname(c: ast.Call) -> str:
    f = c.func
    parts = []
    while isinstance(f, ast.Attribute):
        parts.append(f.attr)
        f = f.value
    if isinstance(f, ast.Name):
        parts.append(f.id)
    return ".".join(reversed(parts))


def expr_may_raise(node: ast.AST, pure: frozenset = frozenset()) -> bool:
    """Conservative: calls, subscript loads, attribute loads on non-self objects are not counted
    (the repo relies on them everywhere); arithmetic is ignored. Calls, subscripts, raise, assert
    count."""
    for n in ast.walk(node):
        if isinstance(n, ast.Call):
            nm = _cname(n)
            if nm and (nm in pure or nm.split(".")[-1] in pure):
                continue
            return True
        if isinstance(n, (ast.Raise, ast.Assert, ast.Await)):
            return True
        if isinstance(n, ast.Subscript) and isinstance(n.ctx, ast.Load):
            return True
    return False


CATCH_ALL = {"Exception", "BaseException"}


class CFG:
    def __init__(self, func: ast.FunctionDef | ast.Module, pure: frozenset = frozenset()):
        self.func = func
        self.pure = frozenset(pure)
        self.nodes: list[Node] = []
        self.succ: dict[int, list[tuple[int, str]]] = defaultdict(list)
        self.pred: dict[int, list[tuple[int, str]]] = defaultdict(list)
        self.entry = self._new("entry")
        self.exit = self._new("exit")  # normal return (explicit or fall-through)
        self.raise_exit = self._new("raise")  # exception leaves the function
        self.fallthrough_preds: set[int] = set()  # nodes that reach exit by falling off the end
        self.if_true: dict[int, set[int]] = {}  # test node -> entry nodes of the true branch
        self.if_false: dict[int, set[int]] = {}  # entry nodes of the false branch (a synthetic join node when there is no else)
        self.if_stmt: dict[int, ast.If] = {}
        self.return_nodes: list[int] = []
        ctx = _Ctx(exc=[("node", self.raise_exit.id)])
        body = func.body
        out = self._block(body, {self.entry.id}, ctx)
        for p in out:
            self._edge(p, self.exit.id, "n")
            self.fallthrough_preds.add(p)

    # -- construction -------------------------------------------------------------------------
    def _new(self, kind, astnode=None, label=""):
        n = Node(len(self.nodes), kind, astnode, label)
        self.nodes.append(n)
        return n

    def _edge(self, a, b, kind):
        if (b, kind) not in self.succ[a]:
            self.succ[a].append((b, kind))
            self.pred[b].append((a, kind))

    def _connect(self, preds, nid):
        for p in preds:
            self._edge(p, nid, "n")

    def _exc_edge(self, nid, ctx):
        """Exception raised at node nid: route to innermost handler context."""
        self._route_exc({nid}, ctx, len(ctx.exc) - 1, kind="e")

    def _route_exc(self, preds, ctx, level, kind="e"):
        tgt = ctx.exc[level]
        if tgt[0] == "node":
            for p in preds:
                self._edge(p, tgt[1], kind)
        elif tgt[0] == "try":
            # tgt = ("try", dispatch_node_id)
            for p in preds:
                self._edge(p, tgt[1], kind)
        elif tgt[0] == "finally":
            # run a copy of the finally body then continue propagating outward
            _, finalbody, fctx = tgt
            j = self._new("join", label="finally(exc)")
            for p in preds:
                self._edge(p, j.id, kind)
            out = self._block(finalbody, {j.id}, fctx)
            self._route_exc(out, ctx, level - 1, kind="e")

    def _simple(self, st, preds, ctx, kind="stmt"):
        n = self._new(kind, st)
        self._connect(preds, n.id)
        if expr_may_raise(st, self.pure):
            self._exc_edge(n.id, ctx)
        return n

    def _run_finallies(self, preds, ctx, upto):
        """Inline copies of enclosing finally bodies (innermost first) down to depth `upto`."""
        cur = set(preds)
        for level in range(len(ctx.exc) - 1, upto - 1, -1):
            tgt = ctx.exc[level]
            if tgt[0] == "finally":
                _, finalbody, fctx = tgt
                j = self._new("join", label="finally(jump)")
                self._connect(cur, j.id)
                cur = self._block(finalbody, {j.id}, fctx)
        return cur

    def _block(self, stmts, preds, ctx) -> set[int]:
        cur = set(preds)
        for st in stmts:
            if not cur:
                break  # unreachable code
            cur = self._stmt(st, cur, ctx)
        return cur

    def _stmt(self, st, preds, ctx) -> set[int]:
        if isinstance(st, ast.Return):
            n = self._simple(st, preds, ctx)
            self.return_nodes.append(n.id)
            out = self._run_finallies({n.id}, ctx, 0)
            for p in out:
                self._edge(p, self.exit.id, "n")
            return set()
        if isinstance(st, ast.Raise):
            n = self._new("stmt", st)
            self._connect(preds, n.id)
            self._exc_edge(n.id, ctx)
            return set()
        if isinstance(st, ast.If):
            t = self._simple(st.test, preds, ctx, "test")
            before = {y for y, k in self.succ[t.id] if k == "n"}
            a = self._block(st.body, {t.id}, ctx)
            mid = {y for y, k in self.succ[t.id] if k == "n"}
            self.if_true[t.id] = mid - before
            self.if_stmt[t.id] = st
            if st.orelse:
                b = self._block(st.orelse, {t.id}, ctx)
            else:
                # an explicit node for the empty else branch, so that "the test was false" is a node a path passes through
                j = self._new("join", st, label="if-false")
                self._edge(t.id, j.id, "n")
                b = {j.id}
            self.if_false[t.id] = {y for y, k in self.succ[t.id] if k == "n"} - mid
            return a | b
        if isinstance(st, (ast.For, ast.AsyncFor)):
            it = self._simple(st.iter, preds, ctx, "iter")
            head = self._new("test", st, label="for-head")
            self._edge(it.id, head.id, "n")
            lctx = ctx.push_loop(head.id, len(ctx.exc))
            body_out = self._block(st.body, {head.id}, lctx)
            self._connect(body_out, head.id)
            for c in lctx.continues:
                self._edge(c, head.id, "n")
            out = self._block(st.orelse, {head.id}, ctx) if st.orelse else {head.id}
            return out | set(lctx.breaks)
        if isinstance(st, ast.While):
            t = self._simple(st.test, preds, ctx, "test")
            lctx = ctx.push_loop(t.id, len(ctx.exc))
            body_out = self._block(st.body, {t.id}, lctx)
            self._connect(body_out, t.id)
            for c in lctx.continues:
                self._edge(c, t.id, "n")
            always = isinstance(st.test, ast.Constant) and bool(st.test.value)
            out = set() if always else (self._block(st.orelse, {t.id}, ctx) if st.orelse else {t.id})
            return out | set(lctx.breaks)
        if isinstance(st, ast.Break):
            n = self._new("stmt", st)
            self._connect(preds, n.id)
            out = self._run_finallies({n.id}, ctx, ctx.loop_exc_depth)
            ctx.breaks.extend(out)
            return set()
        if isinstance(st, ast.Continue):
            n = self._new("stmt", st)
            self._connect(preds, n.id)
            out = self._run_finallies({n.id}, ctx, ctx.loop_exc_depth)
            ctx.continues.extend(out)
            return set()
        if isinstance(st, (ast.With, ast.AsyncWith)):
            w = self._new("with", st)
            self._connect(preds, w.id)
            sup = [i.context_expr for i in st.items if isinstance(i.context_expr, ast.Call)
                   and ast.unparse(i.context_expr.func).split(".")[-1] == "suppress"]
            if sup and len(st.items) == 1:
                # `with suppress(E, ...):` is `try: body / except (E, ...): pass`; constructing the manager from class names cannot fail
                dispatch = self._new("join", st, label="suppress-dispatch")
                body_out = self._block(st.body, {w.id}, ctx.push_exc(("try", dispatch.id)))
                names = {a.attr if isinstance(a, ast.Attribute) else getattr(a, "id", None) for a in sup[0].args}
                if not (names & set(CATCH_ALL)):
                    self._route_exc({dispatch.id}, ctx, len(ctx.exc) - 1, kind="e")
                return set(body_out) | {dispatch.id}
            if any(expr_may_raise(i.context_expr, self.pure) for i in st.items):
                self._exc_edge(w.id, ctx)
            return self._block(st.body, {w.id}, ctx)
        if isinstance(st, ast.Try) or type(st).__name__ == "TryStar":
            return self._try(st, preds, ctx)
        if isinstance(st, ast.Match):
            t = self._simple(st.subject, preds, ctx, "test")
            outs = set()
            exhaustive = False
            for case in st.cases:
                c = self._new("test", case.pattern, label="case")
                self._edge(t.id, c.id, "n")
                outs |= self._block(case.body, {c.id}, ctx)
                if isinstance(case.pattern, ast.MatchAs) and case.pattern.pattern is None and case.guard is None:
                    exhaustive = True
            if not exhaustive:
                outs.add(t.id)
            return outs
        if isinstance(st, (ast.FunctionDef, ast.AsyncFunctionDef, ast.ClassDef)):
            n = self._new("stmt", st, label=f"def {st.name}")
            self._connect(preds, n.id)
            return {n.id}
        # simple statements: Assign, AugAssign, AnnAssign, Expr, Assert, Delete, Pass, Import, ...
        n = self._simple(st, preds, ctx)
        return {n.id}

    def _try(self, st, preds, ctx):
        has_finally = bool(st.finalbody)
        base_ctx = ctx
        if has_finally:
            ctx = ctx.push_exc(("finally", st.finalbody, base_ctx))
        if st.handlers:
            dispatch = self._new("join", st, label="except-dispatch")
            body_ctx = ctx.push_exc(("try", dispatch.id))
        else:
            dispatch = None
            body_ctx = ctx
        body_out = self._block(st.body, preds, body_ctx)
        if st.orelse:
            body_out = self._block(st.orelse, body_out, ctx)
        outs = set(body_out)
        if dispatch is not None:
            catches_all = False
            for h in st.handlers:
                hn = self._new("handler", h)
                self._edge(dispatch.id, hn.id, "n")
                outs |= self._block(h.body, {hn.id}, ctx)
                if h.type is None:
                    catches_all = True
                else:
                    names = [h.type] if not isinstance(h.type, ast.Tuple) else h.type.elts
                    for nm in names:
                        d = nm.attr if isinstance(nm, ast.Attribute) else getattr(nm, "id", None)
                        if d in CATCH_ALL:
                            catches_all = True
            if not catches_all:
                # unmatched exception propagates outward (through finally if any)
                self._route_exc({dispatch.id}, ctx, len(ctx.exc) - 1, kind="e")
        if has_finally:
            j = self._new("join", label="finally(normal)")
            self._connect(outs, j.id)
            outs = self._block(st.finalbody, {j.id}, base_ctx)
        return outs

    # -- queries ------------------------------------------------------------------------------
    def reachable(self, start: int, blocked: set[int] = frozenset(), kinds=("n", "e")) -> set[int]:
        seen = set()
        todo = [start]
        while todo:
            x = todo.pop()
            if x in seen or x in blocked:
                continue
            seen.add(x)
            for y, k in self.succ[x]:
                if k in kinds:
                    todo.append(y)
        return seen

    def path(self, start: int, goal: int, blocked: set[int] = frozenset()) -> list[int] | None:
        """Shortest path start..goal avoiding blocked nodes (for diagnostics)."""
        from collections import deque

        prev = {start: None}
        dq = deque([start])
        while dq:
            x = dq.popleft()
            if x == goal:
                out = []
                while x is not None:
                    out.append(x)
                    x = prev[x]
                return out[::-1]
            for y, _k in self.succ[x]:
                if y not in prev and y not in blocked:
                    prev[y] = x
                    dq.append(y)
        return None

    def must_pass(self, start: int, goal: int, through: set[int]) -> bool:
        """True iff every path start→goal passes through one of `through` (vacuous if no path)."""
        if start in through:
            return True
        return goal not in self.reachable(start, blocked=set(through))

    def dominates(self, a: int, b: int) -> bool:
        return b not in self.reachable(self.entry.id, blocked={a}) or a == b

    def nodes_where(self, pred):
        return [n for n in self.nodes if n.ast is not None and pred(n)]

    def stmt_nodes_containing(self, target: ast.AST) -> list[Node]:
        """CFG nodes whose ast contains `target` (by identity)."""
        out = []
        for n in self.nodes:
            if n.ast is None or n.kind in ("join",):
                continue
            if isinstance(n.ast, (ast.For, ast.AsyncFor)) and n.label == "for-head":
                # for-head owns only the loop target
                if any(x is target for x in ast.walk(n.ast.target)):
                    out.append(n)
                continue
            if isinstance(n.ast, (ast.With, ast.AsyncWith)):
                if any(x is target for it in n.ast.items for x in ast.walk(it)):
                    out.append(n)
                continue
            if isinstance(n.ast, ast.ExceptHandler):
                if n.ast.type is not None and any(x is target for x in ast.walk(n.ast.type)):
                    out.append(n)
                continue
            if isinstance(n.ast, (ast.FunctionDef, ast.AsyncFunctionDef, ast.ClassDef, ast.Try)):
                continue
            if any(x is target for x in ast.walk(n.ast)):
                out.append(n)
        return out

    def describe_path(self, p: list[int], mod=None) -> str:
        parts = []
        for i in p:
            n = self.nodes[i]
            if n.kind in ("entry", "exit", "raise"):
                parts.append(n.kind.upper())
            elif n.kind == "join":
                parts.append(f"[{n.label}]")
            else:
                parts.append(f"L{n.lineno}")
        return " -> ".join(parts)


class _Ctx:
    def __init__(self, exc, loop_head=None, loop_exc_depth=0, breaks=None, continues=None):
        self.exc = exc
        self.loop_head = loop_head
        self.loop_exc_depth = loop_exc_depth
        self.breaks = breaks if breaks is not None else []
        self.continues = continues if continues is not None else []

    def push_exc(self, tgt):
        return _Ctx(self.exc + [tgt], self.loop_head, self.loop_exc_depth, self.breaks, self.continues)

    def push_loop(self, head, exc_depth):
        return _Ctx(self.exc, head, exc_depth, [], [])


# ---- definitions / uses per node --------------------------------------------------------------


def node_defs(n: Node) -> set[str]:
    """Names (simple variables) bound by this CFG node."""
    a = n.ast
    out: set[str] = set()
    if a is None or n.kind == "join":
        return out

    def targets(t):
        for x in ast.walk(t):
            if isinstance(x, ast.Name) and isinstance(x.ctx, ast.Store):
                out.add(x.id)

    if n.label == "for-head":
        targets(a.target)
        return out
    if n.kind == "with":
        for it in a.items:
            if it.optional_vars is not None:
                targets(it.optional_vars)
            for x in ast.walk(it.context_expr):
                if isinstance(x, ast.NamedExpr):
                    out.add(x.target.id)
        return out
    if n.kind == "handler":
        if a.name:
            out.add(a.name)
        return out
    if isinstance(a, (ast.FunctionDef, ast.AsyncFunctionDef, ast.ClassDef)):
        out.add(a.name)
        return out
    if isinstance(a, (ast.Import, ast.ImportFrom)):
        for al in a.names:
            out.add((al.asname or al.name).split(".")[0])
        return out
    for x in _walk_shallow(a):
        if isinstance(x, ast.Name) and isinstance(x.ctx, ast.Store):
            out.add(x.id)
        elif isinstance(x, ast.NamedExpr):
            out.add(x.target.id)
    return out


def _walk_shallow(a):
    """Walk without entering lambdas/comprehension scopes' *targets* (they bind locally)."""
    todo = [a]
    while todo:
        x = todo.pop()
        yield x
        if isinstance(x, ast.Lambda):
            continue
        if isinstance(x, (ast.ListComp, ast.SetComp, ast.DictComp, ast.GeneratorExp)):
            # comprehension targets are local to the comprehension; still visit iterables/elts
            bound = set()
            for g in x.generators:
                for t in ast.walk(g.target):
                    if isinstance(t, ast.Name):
                        bound.add(id(t))
            for c in ast.iter_child_nodes(x):
                for y in ast.walk(c):
                    if isinstance(y, ast.Name) and isinstance(y.ctx, ast.Store) and id(y) in bound:
                        continue
                    if isinstance(y, ast.NamedExpr):
                        yield y
            continue
        todo.extend(ast.iter_child_nodes(x))


def node_uses(n: Node) -> list[ast.Name]:
    """Name loads evaluated by this CFG node (comprehension-local names excluded)."""
    a = n.ast
    if a is None or n.kind == "join":
        return []
    roots: list[ast.AST]
    if n.label == "for-head":
        return []
    if n.kind == "with":
        roots = [it.context_expr for it in a.items]
    elif n.kind == "handler":
        roots = [a.type] if a.type is not None else []
    elif isinstance(a, (ast.FunctionDef, ast.AsyncFunctionDef, ast.ClassDef)):
        roots = list(a.decorator_list)
    else:
        roots = [a]
    out = []
    for r in roots:
        out.extend(_loads(r, set()))
    return out


def _loads(a: ast.AST, bound: set[str]) -> list[ast.Name]:
    out = []
    if isinstance(a, (ast.ListComp, ast.SetComp, ast.DictComp, ast.GeneratorExp)):
        b = set(bound)
        for g in a.generators:
            out.extend(_loads(g.iter, b))
            for t in ast.walk(g.target):
                if isinstance(t, ast.Name):
                    b.add(t.id)
            for c in g.ifs:
                out.extend(_loads(c, b))
        elts = [a.key, a.value] if isinstance(a, ast.DictComp) else [a.elt]
        for e in elts:
            out.extend(_loads(e, b))
        return out
    if isinstance(a, ast.Lambda):
        b = set(bound) | {x.arg for x in a.args.args + a.args.kwonlyargs + a.args.posonlyargs}
        return _loads(a.body, b)
    if isinstance(a, ast.Name):
        if isinstance(a.ctx, ast.Load) and a.id not in bound:
            out.append(a)
        return out
    for c in ast.iter_child_nodes(a):
        out.extend(_loads(c, bound))
    return out


def reaching_definitions(cfg: CFG, params: set[str], extra_defs: dict[int, set[str]] | None = None):
    """Classic RD. Returns IN[node] = {var: set(def_node_id)}; entry defines params (id -1).

    extra_defs adds pseudo-definitions (node id -> names), e.g. a loop header that "defines" every
    variable assigned in its body, so that a definition id equal to the header means "value of an
    earlier iteration (or of before the loop)".
    """
    defs = {n.id: set(node_defs(n)) for n in cfg.nodes}
    for k, v in (extra_defs or {}).items():
        defs[k] |= set(v)
    IN: dict[int, dict[str, set[int]]] = {n.id: {} for n in cfg.nodes}
    OUT: dict[int, dict[str, set[int]]] = {n.id: {} for n in cfg.nodes}
    OUT[cfg.entry.id] = {p: {-1} for p in params}
    work = [n.id for n in cfg.nodes]
    while work:
        x = work.pop(0)
        changed = False
        if x != cfg.entry.id:
            new_in: dict[str, set[int]] = {}
            for p, _k in cfg.pred[x]:
                # an exceptional edge leaves *before* the statement's own binding took effect
                src = OUT[p] if _k == "n" else IN[p]
                for v, s in src.items():
                    new_in.setdefault(v, set()).update(s)
            if new_in != IN[x]:
                IN[x] = new_in
                changed = True
            new_out = {v: set(s) for v, s in new_in.items()}
            for v in defs[x]:
                new_out[v] = {x}
            if new_out != OUT[x]:
                OUT[x] = new_out
                changed = True
        else:
            changed = True
        if changed:
            for y, _k in cfg.succ[x]:
                if y not in work:
                    work.append(y)
    return IN, OUT


def loop_carried(cfg: CFG, loop: ast.For | ast.While, use: ast.AST, var: str, params: set[str] = frozenset()):
    """Is the value of `var` at statement `use` (inside `loop`) possibly that of an earlier iteration?

    Backward slice over reaching definitions inside the loop body with the loop header acting as a
    pseudo-definition of every name assigned in the body.  Returns a list of chains
    [(var, line), ...] ending at the name whose value crosses the header; [] if none.
    """
    head = [n for n in cfg.nodes if n.kind in ("iter", "test") and n.ast is loop]
    if not head:
        raise ValueError("loop header not in cfg")
    H = head[0].id
    inside = {id(x) for st in loop.body for x in ast.walk(st)}
    body_nodes = [n for n in cfg.nodes if n.ast is not None and id(n.ast) in inside]
    assigned = set()
    for n in body_nodes:
        assigned |= set(node_defs(n))
    own = set(node_defs(head[0]))
    IN, _OUT = reaching_definitions(cfg, set(params), {H: assigned - own})
    starts = [n for n in cfg.stmt_nodes_containing(use)]
    if not starts:
        raise ValueError("use statement not in cfg")
    byid = {n.id: n for n in cfg.nodes}
    out = []
    seen = set()
    work = [(s.id, var, [(var, s.lineno)]) for s in starts]
    while work:
        nid, v, chain = work.pop()
        if (nid, v) in seen:
            continue
        seen.add((nid, v))
        for d in IN[nid].get(v, ()):
            if d == H and v in assigned and v not in own:
                out.append(chain)
                continue
            if d < 0 or d not in byid or id(byid[d].ast) not in inside:
                continue
            for u in node_uses(byid[d]):
                work.append((d, u.id, chain + [(u.id, byid[d].lineno)]))
    return out
