"""Facts about the LNodes class hierarchy, read from ffcx/codegeneration/lnodes.py (never imported)."""

from __future__ import annotations

import ast
from dataclasses import dataclass, field

from .model import AnalysisError, Repo, dotted

LNODES = "ffcx.codegeneration.lnodes"


@dataclass
class LClass:
    name: str
    bases: list[str]  # transitive, nearest first
    precedence: int | None
    op: str | None
    sideeffect: bool
    kind: str  # bin nary unary cond access call lit_float lit_int symbol multiindex stmt other
    sets_dtype: bool = False  # __init__ assigns self.dtype (else DataType.NONE from LExpr)
    merges: list[str] = field(default_factory=list)  # child attrs whose dtype must not be NONE
    child_attrs: list[str] = field(default_factory=list)


def precedence_table(repo: Repo) -> dict[str, int]:
    m = repo.mod(LNODES)
    c = m.cls("PRECEDENCE")
    out = {}
    for st in c.body:
        if isinstance(st, ast.Assign) and isinstance(st.targets[0], ast.Name):
            try:
                out[st.targets[0].id] = int(ast.literal_eval(st.value))
            except Exception as e:
                raise AnalysisError(f"PRECEDENCE.{st.targets[0].id} is not an int literal") from e
    if len(out) < 10:
        raise AnalysisError("PRECEDENCE table has fewer than 10 entries")
    return out


KIND_BY_BASE = [
    ("AssignOp", "assign"),
    ("BinOp", "bin"),
    ("NaryOp", "nary"),
    ("PrefixUnaryOp", "unary"),
]


def load_classes(repo: Repo) -> dict[str, LClass]:
    m = repo.mod(LNODES)
    prec = precedence_table(repo)
    out: dict[str, LClass] = {}
    for name, node in m.classes.items():
        if "." in name:
            continue
        bases = repo.class_bases(m, name)
        if "LNode" not in bases and name != "LNode":
            continue
        pv = repo.class_attr(m, name, "precedence")
        p = None
        if pv is not None:
            d = dotted(pv)
            if d and d.startswith("PRECEDENCE."):
                p = prec.get(d.split(".", 1)[1])
                if p is None:
                    raise AnalysisError(f"{name}.precedence refers to unknown {d}")
            else:
                try:
                    p = int(ast.literal_eval(pv))
                except Exception:
                    raise AnalysisError(f"{name}.precedence is not resolvable: {ast.unparse(pv)}")
        ov = repo.class_attr(m, name, "op")
        op = ov.value if isinstance(ov, ast.Constant) and isinstance(ov.value, str) else None
        sv = repo.class_attr(m, name, "sideeffect")
        side = bool(sv.value) if isinstance(sv, ast.Constant) else False
        kind = "other"
        chain = [name] + bases
        for b, k in KIND_BY_BASE:
            if b in chain:
                kind = k
                break
        special = {
            "Conditional": "cond",
            "ArrayAccess": "access",
            "MathFunction": "call",
            "LiteralFloat": "lit_float",
            "LiteralInt": "lit_int",
            "Symbol": "symbol",
            "MultiIndex": "multiindex",
        }
        if name in special:
            kind = special[name]
        if "Statement" in chain or name in ("Section", "StatementList"):
            kind = "stmt"
        lc = LClass(name, bases, p, op, side, kind)
        # effective __init__
        init = None
        for c in chain:
            f = m.funcs.get(f"{c}.__init__")
            if f is not None:
                init = f
                break
        if init is not None:
            for n in ast.walk(init.node):
                if isinstance(n, ast.Assign):
                    for t in n.targets:
                        if isinstance(t, ast.Attribute) and isinstance(t.value, ast.Name) and t.value.id == "self":
                            if t.attr == "dtype":
                                lc.sets_dtype = True
                            elif t.attr not in lc.child_attrs:
                                lc.child_attrs.append(t.attr)
                if isinstance(n, ast.Call) and dotted(n.func) == "merge_dtypes":
                    for a in ast.walk(n):
                        if isinstance(a, ast.Attribute) and a.attr == "dtype":
                            d = dotted(a.value) or ""
                            if d.startswith("self."):
                                lc.merges.append(d.split(".")[1])
                            elif d in ("arg",):
                                lc.merges.append("args")
        out[name] = lc
    for need in ("Add", "Sub", "Mul", "Div", "Sum", "Product", "Neg", "Not", "Conditional", "ArrayAccess",
                 "Symbol", "LiteralFloat", "LiteralInt", "MathFunction", "LT", "EQ", "And", "Or"):
        if need not in out:
            raise AnalysisError(f"anchor vanished: LNodes class {need}")
    return out


def concrete_expr_classes(classes: dict[str, LClass]) -> list[LClass]:
    """Expression classes that can be instantiated (have a precedence)."""
    abstract = {"LExpr", "LExprOperator", "LExprTerminal", "BinOp", "ArithmeticBinOp", "NaryOp",
                "PrefixUnaryOp", "AssignOp", "LNode"}
    return [c for c in classes.values() if c.precedence is not None and c.name not in abstract and "LExpr" in c.bases]


def typed(c: LClass) -> bool:
    """Does an instance carry a dtype other than NONE (so it can sit under arithmetic)?"""
    if c.kind in ("lit_float", "lit_int", "symbol", "multiindex", "access", "call", "cond", "nary"):
        return True
    return c.sets_dtype
