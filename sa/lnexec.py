"""Symbolic meaning of an (abstract) LNodes statement tree.

The trees are the `absint.Node` objects produced by interpreting the repository's own constructors
and passes; nothing of FFCx is executed.  A program is run over *symbolic* inputs with *concrete* loop
ranges (the ranges of the sample sections are small literals): every element of an input array is an
independent indeterminate, so the final contents of the output arrays are polynomials (rational
functions) in those indeterminates, and two programs compute the same tensor for every input iff these
normal forms coincide.  The initial contents of the output array are indeterminates as well, which
makes "accumulates onto what is there" part of the meaning.
"""

from __future__ import annotations

from fractions import Fraction

from .absint import Node, Rat
from .model import AnalysisError


class ExecError(Exception):
    """The program itself is ill-formed (read of an undefined temporary, index out of bounds...)."""


class Exec:
    def __init__(self, outputs=("A",), max_steps=200000, concrete=None, extents=None):
        self.concrete = concrete or {}  # input arrays used as indices: name -> {index tuple: int}
        self.extents = extents or {}    # kernel arguments / static tables: name -> shape (reads and writes are bounds-checked)
        self.mem: dict[tuple, Rat] = {}       # (array name, index tuple) -> value
        self.scalars: dict[str, Rat] = {}     # assigned / declared scalars
        self.local_arrays: dict[str, tuple] = {}  # name -> sizes
        self.loopvars: dict[str, int] = {}
        self.decl_scopes: list[set] = [set()]
        self.outputs = set(outputs)
        self.steps = 0
        self.max_steps = max_steps
        self.reads: set[str] = set()

    # ---- expressions ----------------------------------------------------------------------------
    def index(self, e) -> int:
        v = self.ev(e)
        if len(v.num) > 1 or (v.num and () not in v.num) or v.den != {(): Fraction(1)}:
            raise AnalysisError(f"lnexec: index `{e!r}` is not concrete")
        c = v.num.get((), Fraction(0))
        if c.denominator != 1:
            raise ExecError(f"non-integer index {c} from `{e!r}`")
        return int(c)

    def ev(self, e) -> Rat:
        if isinstance(e, bool):
            raise AnalysisError("lnexec: bool in arithmetic")
        if isinstance(e, (int, float, Fraction)):
            return Rat.const(Fraction(e))
        if not isinstance(e, Node):
            raise AnalysisError(f"lnexec: cannot evaluate {type(e).__name__}")
        c = e.cls
        f = e.f
        if c in ("LiteralInt", "LiteralFloat"):
            return Rat.const(Fraction(f["value"]))
        if c == "Symbol":
            n = f["name"]
            if n in self.loopvars:
                return Rat.const(self.loopvars[n])
            if n in self.scalars:
                v = self.scalars[n]
                if v is None:
                    raise ExecError(f"read of uninitialised scalar `{n}`")
                return v
            if f.get("dtype") == "DataType.INT":
                raise ExecError(f"integer symbol `{n}` is read outside every loop that defines it")
            self.reads.add(n)
            return Rat.var(n)
        if c == "MultiIndex":
            return self.ev(f["global_index"])
        if c == "ArrayAccess":
            name = f["array"].f["name"] if isinstance(f["array"], Node) else str(f["array"])
            idx = tuple(self.index(i) for i in f["indices"])
            return self.load(name, idx)
        if c == "Neg":
            return -self.ev(f["arg"])
        if c in ("Add", "Sub", "Mul", "Div"):
            a, b = self.ev(f["lhs"]), self.ev(f["rhs"])
            if c == "Add":
                return a + b
            if c == "Sub":
                return a - b
            if c == "Mul":
                return a * b
            if b.is_zero():
                raise ExecError("division by zero")
            return a / b
        if c in ("Sum", "Product"):
            out = Rat.const(0 if c == "Sum" else 1)
            for a in f["args"]:
                out = (out + self.ev(a)) if c == "Sum" else (out * self.ev(a))
            return out
        raise AnalysisError(f"lnexec: expression class {c} not modelled")

    def load(self, name, idx) -> Rat:
        if name in self.local_arrays:
            self.bounds(name, idx)
            v = self.mem.get((name, idx))
            if v is None:
                raise ExecError(f"read of uninitialised element {name}{list(idx)}")
            return v
        self.check_extent(name, idx)
        if (name, idx) in self.mem:
            return self.mem[(name, idx)]
        if name in self.concrete:
            if idx not in self.concrete[name]:
                raise ExecError(f"{name}{list(idx)} is outside the extent of the kernel argument")
            return Rat.const(self.concrete[name][idx])
        self.reads.add(name)
        return Rat.var(f"{name}{list(idx)}")

    def check_extent(self, name, idx):
        if name in self.extents:
            shape = self.extents[name]
            if len(shape) != len(idx) or any(not (0 <= i < s_) for i, s_ in zip(idx, shape)):
                raise ExecError(f"{name}{list(idx)} is outside the extent {list(shape)} the contract / declaration gives it")

    def bounds(self, name, idx):
        sizes = self.local_arrays[name]
        if len(sizes) != len(idx) or any(not (0 <= i < s) for i, s in zip(idx, sizes)):
            raise ExecError(f"{name}{list(idx)} is outside its declared extent {list(sizes)}")

    # ---- statements -----------------------------------------------------------------------------
    def target(self, lhs):
        if lhs.cls == "Symbol":
            return ("scalar", lhs.f["name"])
        if lhs.cls == "ArrayAccess":
            name = lhs.f["array"].f["name"]
            idx = tuple(self.index(i) for i in lhs.f["indices"])
            if name in self.local_arrays:
                self.bounds(name, idx)
            self.check_extent(name, idx)
            return ("array", name, idx)
        raise AnalysisError(f"lnexec: assignment target {lhs.cls}")

    def assign(self, op, lhs, rhs):
        t = self.target(lhs)
        v = self.ev(rhs)
        if op != "Assign":
            old = self.ev(lhs)
            v = {"AssignAdd": old + v, "AssignSub": old - v, "AssignMul": old * v}.get(op) if op != "AssignDiv" else old / v
        if t[0] == "scalar":
            if t[1] in self.loopvars:
                raise ExecError(f"assignment to loop variable {t[1]}")
            if t[1] not in self.scalars and t[1] not in self.outputs:
                raise ExecError(f"assignment to `{t[1]}`, which is neither declared in the kernel nor one of its outputs")
            self.scalars[t[1]] = v
        else:
            if t[1] not in self.local_arrays and t[1] not in self.outputs:
                raise ExecError(f"store into `{t[1]}{list(t[2])}`: the array is neither declared in the kernel nor one of its outputs (a kernel input / a table)")
            self.mem[(t[1], t[2])] = v

    def run(self, st):
        self.steps += 1
        if self.steps > self.max_steps:
            raise AnalysisError("lnexec: step budget exceeded")
        if isinstance(st, (list, tuple)):
            for s in st:
                self.run(s)
            return
        if st is None:
            return
        if not isinstance(st, Node):
            raise AnalysisError(f"lnexec: statement {type(st).__name__}")
        c, f = st.cls, st.f
        if c == "Section":
            # as the formatters print it: the declarations in the enclosing scope, the statements in a block of their own
            self.run(f["declarations"])
            self.decl_scopes.append(set())
            try:
                self.run(f["statements"])
            finally:
                self.decl_scopes.pop()
        elif c == "StatementList":
            self.run(f["statements"])
        elif c == "Statement":
            self.run(f["expr"])
        elif c in ("Assign", "AssignAdd", "AssignSub", "AssignMul", "AssignDiv"):
            self.assign(c, f["lhs"], f["rhs"])
        elif c == "Comment":
            pass
        elif c == "VariableDecl":
            n = f["symbol"].f["name"]
            self.declare(n)
            val = f.get("value")
            self.scalars[n] = self.ev(val) if val is not None else None
        elif c == "ArrayDecl":
            n = f["symbol"].f["name"]
            self.declare(n)
            sizes = f["sizes"]
            sizes = tuple(int(s) for s in (sizes if isinstance(sizes, (list, tuple)) else [sizes]))
            self.local_arrays[n] = sizes
            for k in [k for k in self.mem if k[0] == n]:
                del self.mem[k]
            vals = f.get("values")
            if vals is not None:
                flat = _flatten(vals)
                total = 1
                for s in sizes:
                    total *= s
                if len(flat) == 1 and total > 1:
                    flat = flat * total      # the C formatter prints `= {v}` which zero-fills the rest only for v == 0
                    if self.ev(flat[0]).num:
                        raise AnalysisError("lnexec: single non-zero initialiser")
                if len(flat) != total:
                    raise ExecError(f"{n}: {len(flat)} initial values for extent {list(sizes)}")
                for pos, v in enumerate(flat):
                    idx = []
                    r = pos
                    for s in reversed(sizes):
                        idx.append(r % s)
                        r //= s
                    self.mem[(n, tuple(reversed(idx)))] = self.ev(v)
        elif c == "ForRange":
            ix = f["index"]
            if ix.cls == "MultiIndex":
                raise AnalysisError("lnexec: MultiIndex loop")
            name = ix.f["name"]
            b, e = self.index(f["begin"]), self.index(f["end"])
            if name in self.loopvars:
                raise ExecError(f"loop variable {name} is reused by a nested loop")
            for i in range(b, e):
                self.loopvars[name] = i
                self.decl_scopes.append(set())   # the loop body is a block: what it declares is new in every iteration
                try:
                    self.run(f["body"])
                finally:
                    self.decl_scopes.pop()
            self.loopvars.pop(name, None)
        else:
            raise AnalysisError(f"lnexec: statement class {c} not modelled")

    def declare(self, name):
        """a declaration in the current block; the same identifier twice in one block is a redefinition (a compile error in C, a silent rebind in Python)"""
        if name in self.decl_scopes[-1]:
            raise ExecError(f"`{name}` is declared twice in one block (redefinition)")
        self.decl_scopes[-1].add(name)

    def result(self):
        out = {k: v for k, v in self.mem.items() if k[0] in self.outputs}
        for n, v in self.scalars.items():
            if n in self.outputs and v is not None:
                out[(n, ())] = v
        return out


def _flatten(v):
    if hasattr(v, "flat") and callable(getattr(v, "flat")) and hasattr(v, "shape"):
        return list(v.flat())  # array model: row-major entries
    if isinstance(v, (list, tuple)):
        out = []
        for x in v:
            out.extend(_flatten(x))
        return out
    return [v]


def meaning(prog, outputs=("A",), concrete=None, extents=None):
    ex = Exec(outputs, concrete=concrete, extents=extents)
    ex.run(prog)
    return ex.result(), ex


def diff(a: dict, b: dict):
    """First output element on which two meanings differ (None if equal). Missing = untouched."""
    for k in sorted(set(a) | set(b)):
        va = a.get(k, Rat.var(f"{k[0]}{list(k[1])}"))
        vb = b.get(k, Rat.var(f"{k[0]}{list(k[1])}"))
        if not (va == vb):
            return k, va, vb
    return None
