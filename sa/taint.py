"""Whole-package forward taint analysis (flow-sensitive inside functions via reaching definitions,
summary-based across functions, field-name-sensitive for records and objects).

Taint kinds (each carries the id of the source site it came from):
  SET   an unordered collection whose iteration order is process dependent
  ORDL  a list/tuple/iterator whose element ORDER derives from such an iteration
  ORDD  a dict whose insertion ORDER derives from such an iteration (lookups are clean)
  VAL   a value that itself depends on the order / on process history (index, chosen element, text)
  VALS  a container some of whose elements (list) / values (dict) are VAL
  KEYS  a dict some of whose keys are VAL
  CSET  a container whose elements/values are SETs

Clients supply `sources(call/expr) -> [(kind, source_id)]`, `sanitiser` names and `sink` predicates.
The result is, per source id, the list of sinks reached with a short trace.
"""

from __future__ import annotations

import ast
from collections import defaultdict

from .cfg import CFG, node_defs, reaching_definitions
from .model import Func, Module, Repo, call_name, dotted

SET, ORDL, ORDD, VAL, VALS, KEYS, CSET = "SET", "ORDL", "ORDD", "VAL", "VALS", "KEYS", "CSET"
EMPTY = frozenset()


def strip(t, kinds):
    return frozenset(x for x in t if x[0] not in kinds)


def only(t, kinds):
    return frozenset(x for x in t if x[0] in kinds)


def retag(t, frm, to):
    return frozenset((to if k in frm else k, s) for k, s in t)


def to_val(t):
    """Taint of a scalar derived from a tainted thing (any dependence becomes VAL)."""
    return frozenset((VAL, s) for _k, s in t)


CLEAN_FUNCS = {"len", "any", "all", "isinstance", "issubclass", "bool", "callable", "hasattr", "type", "print", "repr_stable"}
ORDER_INSENSITIVE_REDUCERS = {"min", "max", "sum", "np.prod", "numpy.prod", "np.sum", "math.prod", "np.allclose", "np.isclose"}
SEQ_CTORS = {"list", "tuple", "iter", "reversed", "np.array", "np.asarray", "numpy.array", "numpy.asarray",
             "np.ascontiguousarray", "itertools.chain", "chain", "next", "np.vstack", "np.hstack"}
SET_CTORS = {"set", "frozenset"}
SET_METHODS = {"union", "intersection", "difference", "symmetric_difference", "copy"}
MUTATORS_ORDER = {"append", "extend", "insert", "appendleft", "update", "setdefault", "add_node", "add_edge", "write", "writelines"}
SET_MUTATORS = {"add", "discard", "remove", "clear", "difference_update", "intersection_update"}


class Config:
    """Client hooks."""

    def source(self, fa: "FuncAnalysis", node: ast.AST):
        """-> frozenset of taints introduced by this expression node (or EMPTY)."""
        return EMPTY

    def is_sanitiser(self, name: str) -> bool:
        return name == "sorted"

    def sink(self, fa: "FuncAnalysis", call: ast.Call, name: str) -> str | None:
        """-> sink description if this call is an output sink."""
        return None

    def clean_call(self, fa, call, name) -> bool:
        """Calls whose result never carries taint (pure lookups etc.)."""
        return False

    def element_unstable(self, fa, expr) -> bool:
        return True


class FuncAnalysis:
    def __init__(self, eng: "Engine", func: Func):
        self.eng = eng
        self.func = func
        self.mod: Module = func.module
        self.cfg = CFG(func.node)
        self.params = set(func.params)
        self.IN, self.OUT = reaching_definitions(self.cfg, self.params)
        self.def_taint: dict[tuple[int, str], frozenset] = defaultdict(lambda: EMPTY)  # (node id, var) -> taint
        self.node_of_stmt: dict[int, int] = {}
        # loops: for each For node (ast), set of CFG node ids lexically inside its body
        self.loop_nodes: dict[int, set[int]] = {}
        self.for_asts = [n for n in ast.walk(func.node) if isinstance(n, (ast.For, ast.AsyncFor))]
        ids_by_ast = defaultdict(list)
        for n in self.cfg.nodes:
            if n.ast is not None:
                ids_by_ast[id(n.ast)].append(n.id)
        for fo in self.for_asts:
            inside = set()
            for st in fo.body:
                for x in ast.walk(st):
                    for nid in ids_by_ast.get(id(x), []):
                        inside.add(nid)
            self.loop_nodes[id(fo)] = inside
        self.loop_taint: dict[int, frozenset] = defaultdict(lambda: EMPTY)  # for-ast id -> taint of iterable (SET/ORD)
        self.ret = EMPTY

    # ---- variable taint at a CFG node ------------------------------------------------------------
    def var_taint(self, nid: int, name: str) -> frozenset:
        out = EMPTY
        defs = self.IN.get(nid, {}).get(name)
        if defs is None:
            # global / closure / builtin
            return self.eng.global_taint.get((self.mod.name, name), EMPTY)
        for d in defs:
            if d == -1:
                out |= self.eng.param_taint[(self.func.key, name)]
            else:
                out |= self.def_taint[(d, name)]
        return out

    # ---- expression taint ------------------------------------------------------------------------
    def T(self, e: ast.AST, nid: int, local: dict | None = None) -> frozenset:
        local = local if local is not None else {}
        cfgc = self.eng.cfg_client
        src = cfgc.source(self, e)
        if isinstance(e, ast.Name):
            if e.id in local:
                return local[e.id] | src
            return self.var_taint(nid, e.id) | src
        if isinstance(e, ast.Constant):
            return src
        if isinstance(e, ast.Attribute):
            base = self.T(e.value, nid, local)
            ft = self.eng.field_taint.get(e.attr, EMPTY)
            # reading a field of a VAL/VALS object yields a VAL; order taints do not pass through attribute reads
            return src | ft | to_val(only(base, {VAL, VALS}))
        if isinstance(e, ast.Subscript):
            base = self.T(e.value, nid, local)
            idx = self.T(e.slice, nid, local)
            out = src | to_val(idx)
            if isinstance(e.slice, ast.Slice):
                return out | base
            out |= to_val(only(base, {VALS, VAL}))
            out |= to_val(only(base, {ORDL, SET}))  # positional selection from an order-tainted sequence
            out |= retag(only(base, {CSET}), {CSET}, SET)
            # a dict with tainted ORDER only: key lookup is clean
            return out
        if isinstance(e, (ast.JoinedStr, ast.FormattedValue)):
            out = src
            for c in ast.iter_child_nodes(e):
                out |= to_val(self.T(c, nid, local))
            return out
        if isinstance(e, (ast.BinOp,)):
            l, r = self.T(e.left, nid, local), self.T(e.right, nid, local)
            if isinstance(e.op, (ast.BitOr, ast.BitAnd, ast.Sub, ast.BitXor)) and (only(l, {SET}) or only(r, {SET})):
                return src | l | r
            if isinstance(e.op, ast.Add) and (only(l | r, {ORDL, ORDD, VALS})):
                return src | l | r  # list concatenation keeps order taints
            return src | to_val(only(l | r, {VAL, VALS})) | only(l | r, {ORDL, ORDD, SET})
        if isinstance(e, ast.UnaryOp):
            return src | to_val(only(self.T(e.operand, nid, local), {VAL, VALS}))
        if isinstance(e, ast.BoolOp):
            out = src
            for v in e.values:
                out |= self.T(v, nid, local)
            return out
        if isinstance(e, ast.Compare):
            out = src
            for v in [e.left] + e.comparators:
                out |= to_val(only(self.T(v, nid, local), {VAL}))
            return out
        if isinstance(e, ast.IfExp):
            return src | self.T(e.body, nid, local) | self.T(e.orelse, nid, local) | to_val(only(self.T(e.test, nid, local), {VAL}))
        if isinstance(e, (ast.Tuple, ast.List, ast.Set)):
            out = src
            for x in e.elts:
                t = self.T(x.value if isinstance(x, ast.Starred) else x, nid, local)
                if isinstance(x, ast.Starred):
                    out |= t
                else:
                    # any taint of an element makes the container one "with tainted values"
                    out |= frozenset((VALS, s_) for _k, s_ in t)
            if isinstance(e, ast.Set) and e.elts and cfgc.element_unstable(self, e.elts[0]):
                out |= frozenset({(SET, self.site(e, "set-display"))})
            return out
        if isinstance(e, ast.Dict):
            out = src
            for k, v in zip(e.keys, e.values):
                if k is not None:
                    out |= frozenset((KEYS, s_) for _k, s_ in only(self.T(k, nid, local), {VAL, VALS, KEYS}))
                tv = self.T(v, nid, local)
                out |= frozenset((VALS, s_) for _k, s_ in only(tv, {VAL, VALS, KEYS, ORDL, ORDD}))
                out |= retag(only(tv, {SET}), {SET}, CSET)
                if k is None:
                    out |= tv
            return out
        if isinstance(e, (ast.ListComp, ast.GeneratorExp, ast.SetComp, ast.DictComp)):
            return src | self.T_comp(e, nid, local)
        if isinstance(e, ast.Lambda):
            return src
        if isinstance(e, ast.Call):
            return src | self.T_call(e, nid, local)
        if isinstance(e, ast.Starred):
            return src | self.T(e.value, nid, local)
        if isinstance(e, ast.NamedExpr):
            return src | self.T(e.value, nid, local)
        if isinstance(e, ast.Slice):
            out = src
            for c in (e.lower, e.upper, e.step):
                if c is not None:
                    out |= to_val(self.T(c, nid, local))
            return out
        out = src
        for c in ast.iter_child_nodes(e):
            if isinstance(c, ast.expr):
                out |= self.T(c, nid, local)
        return out

    def site(self, node: ast.AST, role: str) -> str:
        from .model import short_hash

        stmt_text = ast.unparse(node)
        return f"{self.func.key}:{role}:{short_hash(stmt_text)}"

    def T_comp(self, e, nid, local):
        local = dict(local)
        order = EMPTY
        for g in e.generators:
            bound, it = self.bind_iter_target(g.target, g.iter, nid, local)
            o = only(it, {SET, ORDL, ORDD})
            order |= o
            local.update(bound)
            for c in g.ifs:
                self.T(c, nid, local)
        if isinstance(e, ast.DictComp):
            kt = self.T(e.key, nid, local)
            vt = self.T(e.value, nid, local)
            out = frozenset((KEYS, s_) for _k, s_ in only(kt, {VAL, VALS, KEYS}))
            out |= frozenset((VALS, s_) for _k, s_ in only(vt, {VAL, VALS, KEYS}))
            out |= retag(only(vt, {SET}), {SET}, CSET)
            out |= retag(order, {SET, ORDL, ORDD}, ORDD)
            return out
        et = self.T(e.elt, nid, local)
        out = frozenset((VALS, s_) for _k, s_ in only(et, {VAL, VALS, KEYS}))
        out |= retag(only(et, {SET}), {SET}, CSET)
        if isinstance(e, ast.SetComp):
            if self.eng.cfg_client.element_unstable(self, e):  # the whole comprehension: what the element is depends on the iteration target
                out |= frozenset({(SET, self.site(e, "set-comp"))})
            return out
        out |= retag(order, {SET, ORDL, ORDD}, ORDL)
        return out

    @staticmethod
    def elem_taint(it):
        """Taint of one element obtained by iterating a container with taint `it`."""
        is_dict = bool(only(it, {ORDD, KEYS}))
        out = to_val(only(it, {KEYS}))
        if not is_dict:
            out |= to_val(only(it, {VALS}))
        out |= retag(only(it, {CSET}), {CSET}, SET)
        return out

    def bind_iter_target(self, target, iter_expr, nid, local):
        """Per-name taint for `for <target> in <iter_expr>` respecting items()/enumerate()/zip()."""
        out = {}
        it = self.T(iter_expr, nid, local)
        o = only(it, {SET, ORDL, ORDD})

        def names(t):
            return [x.id for x in ast.walk(t) if isinstance(x, ast.Name)]

        if isinstance(iter_expr, ast.Call) and isinstance(target, (ast.Tuple, ast.List)):
            nm = call_name(iter_expr) or ""
            last = iter_expr.func.attr if isinstance(iter_expr.func, ast.Attribute) else nm
            if last == "items" and len(target.elts) == 2 and isinstance(iter_expr.func, ast.Attribute):
                recv = self.T(iter_expr.func.value, nid, local)
                for x in names(target.elts[0]):
                    out[x] = to_val(only(recv, {KEYS}))
                vt = to_val(only(recv, {VALS})) | retag(only(recv, {CSET}), {CSET}, SET)
                for x in names(target.elts[1]):
                    out[x] = vt
                return out, it
            if nm == "enumerate" and len(target.elts) == 2 and iter_expr.args:
                inner = self.T(iter_expr.args[0], nid, local)
                for x in names(target.elts[0]):
                    out[x] = to_val(only(inner, {SET, ORDL, ORDD}))
                sub, _ = self.bind_iter_target(target.elts[1], iter_expr.args[0], nid, local) if isinstance(target.elts[1], (ast.Tuple, ast.List)) else ({x: self.elem_taint(inner) for x in names(target.elts[1])}, None)
                out.update(sub)
                return out, it
            if nm == "zip" and len(target.elts) == len(iter_expr.args):
                for tg, a in zip(target.elts, iter_expr.args):
                    at = self.T(a, nid, local)
                    for x in names(tg):
                        out[x] = self.elem_taint(at)
                return out, it
        elem = self.elem_taint(it)
        if isinstance(iter_expr, ast.Call) and (call_name(iter_expr) or "") == "enumerate":
            elem |= to_val(o)
        for x in names(target):
            out[x] = elem
        return out, it

    def resolve_callees(self, call: ast.Call) -> list[Func]:
        return self.eng.resolve(self, call)

    def T_call(self, e: ast.Call, nid, local):
        cfgc = self.eng.cfg_client
        name = call_name(e) or ""
        last = name.split(".")[-1]
        argt = [self.T(a.value if isinstance(a, ast.Starred) else a, nid, local) for a in e.args]
        kwt = {k.arg: self.T(k.value, nid, local) for k in e.keywords}
        allargs = EMPTY
        for t in argt:
            allargs |= t
        for t in kwt.values():
            allargs |= t
        recv = EMPTY
        if isinstance(e.func, ast.Attribute):
            recv = self.T(e.func.value, nid, local)
        # sinks
        sk = cfgc.sink(self, e, name)
        if sk:
            for k, s in allargs | (only(recv, {VAL, VALS}) if False else EMPTY):
                self.eng.hit(s, sk, self, e, k)
        if cfgc.clean_call(self, e, name):
            return EMPTY
        if name in CLEAN_FUNCS:
            return EMPTY
        if cfgc.is_sanitiser(name):
            t = argt[0] if argt else EMPTY
            if only(t, {ORDD, KEYS}):
                return frozenset((VALS, s_) for _k, s_ in only(t, {KEYS}))
            return strip(t, {SET, ORDL, ORDD, KEYS})
        if name in ORDER_INSENSITIVE_REDUCERS:
            return to_val(only(allargs, {VALS, VAL}))
        if name in SET_CTORS:
            t = argt[0] if argt else EMPTY
            out = only(t, {VALS})
            if (e.args and cfgc.element_unstable(self, e.args[0])) or (not e.args and cfgc.element_unstable(self, e)):
                out |= frozenset({(SET, self.site(e, "set"))})
            return out
        if name == "enumerate":
            t = argt[0] if argt else EMPTY
            o = only(t, {SET, ORDL, ORDD})
            return retag(o, {SET, ORDD}, ORDL) | only(t, {VALS}) | retag(to_val(o), {VAL}, VALS)
        if name in ("zip", "map", "filter", "itertools.product", "product", "pairwise", "dict"):
            out = EMPTY
            for t in argt:
                out |= retag(only(t, {SET, ORDL, ORDD}), {SET, ORDD} if name != "dict" else {SET, ORDL}, ORDL if name != "dict" else ORDD) | only(t, {VALS})
                out |= retag(only(t, {VAL}), {VAL}, VALS)
            return out
        if name in SEQ_CTORS:
            out = EMPTY
            for t in argt:
                out |= retag(only(t, {SET, ORDL, ORDD}), {SET, ORDD}, ORDL) | only(t, {VALS}) | retag(only(t, {VAL}), {VAL}, VALS)
            if name == "next":
                out = to_val(out)
            return out
        if name in ("str", "repr", "int", "float", "hash", "format"):
            return to_val(allargs)
        if isinstance(e.func, ast.Attribute):
            if last == "join":
                return to_val(allargs)
            if last in ("format", "format_map"):
                return to_val(allargs | only(recv, {VAL}))
            if last == "keys":
                return strip(recv, {VALS, KEYS, CSET}) | frozenset((VALS, s_) for _k, s_ in only(recv, {KEYS}))
            if last == "values":
                return strip(recv, {KEYS})
            if last == "items":
                return strip(recv, {KEYS}) | frozenset((VALS, s_) for _k, s_ in only(recv, {KEYS}))
            if last == "copy":
                return recv
            if last in SET_METHODS and only(recv, {SET}):
                return recv | allargs
            if last in ("get",):
                return to_val(only(recv, {VALS})) | to_val(only(allargs, {VAL}))
            if last in ("index", "pop", "popitem"):
                return to_val(only(recv, {ORDL, SET, VALS, ORDD} if last != "index" else {ORDL, VALS}))
            if last in ("count",) and e.args:
                return EMPTY
        callees = self.resolve_callees(e)
        if callees:
            out = EMPTY
            for f in callees:
                params = [p for p in f.params]
                offset = 1 if (f.cls is not None and params and params[0] in ("self", "cls") and isinstance(e.func, ast.Attribute)) else 0
                if f.cls is not None and not isinstance(e.func, ast.Attribute) and params and params[0] == "self":
                    offset = 1  # constructor call Class(...)
                for i, t in enumerate(argt):
                    j = i + offset
                    if j < len(params):
                        self.eng.add_param(f, params[j], t)
                for k, t in kwt.items():
                    if k in params:
                        self.eng.add_param(f, k, t)
                    elif k is None:
                        for p in params:
                            self.eng.add_param(f, p, to_val(t))
                out |= self.eng.ret_taint[f.key]
                # dataclass-like / NamedTuple constructors: record fields
            return out
        # record constructors (NamedTuple classes defined in the repo): field-sensitive
        cls = self.eng.record_class(self, e)
        if cls is not None:
            fields = cls
            for i, t in enumerate(argt):
                if i < len(fields):
                    self.eng.add_field(fields[i], t)
            for k, t in kwt.items():
                if k is not None:
                    self.eng.add_field(k, t)
                else:
                    # **record_dict : the dict's string-keyed stores were recorded as fields already
                    pass
            return retag(only(allargs, {VAL, VALS}), {VAL}, VALS)
        # unknown / external callee: conservative
        out = only(allargs, {ORDL, ORDD, VALS}) | retag(only(allargs, {SET}), {SET}, ORDL) | retag(only(allargs, {VAL}), {VAL}, VAL)
        out |= to_val(only(recv, {VAL, VALS}))
        return out

    # ---- statement effects -----------------------------------------------------------------------
    def enclosing_tainted_loops(self, nid: int) -> frozenset:
        out = EMPTY
        for fo in self.for_asts:
            if nid in self.loop_nodes[id(fo)]:
                out |= self.loop_taint[id(fo)]
        return out

    def set_def(self, nid, var, t) -> bool:
        old = self.def_taint[(nid, var)]
        new = old | t
        if new != old:
            self.def_taint[(nid, var)] = new
            return True
        return False

    def taint_var_everywhere(self, nid, name, t) -> bool:
        """A mutation of the object held in `name` at node nid: taint all reaching definitions."""
        changed = False
        defs = self.IN.get(nid, {}).get(name)
        if defs is None:
            return self.eng.add_global(self.mod.name, name, t)
        for d in defs:
            if d == -1:
                changed |= self.eng.add_param_raw(self.func.key, name, t)
            else:
                changed |= self.set_def(d, name, t)
        return changed

    def mutate(self, nid, target: ast.AST, t) -> bool:
        """Record that the object denoted by `target` (Name / attribute / subscript chain) gained taint."""
        if not t:
            return False
        if isinstance(target, ast.Name):
            return self.taint_var_everywhere(nid, target.id, t)
        if isinstance(target, ast.Attribute):
            ch = self.eng.add_field(target.attr, t)
            return ch
        if isinstance(target, ast.Subscript):
            return self.mutate(nid, target.value, t)
        if isinstance(target, ast.Call):
            return False
        return False

    def run(self) -> bool:
        changed = False
        cfg = self.cfg
        for n in cfg.nodes:
            a = n.ast
            if a is None or n.kind == "join":
                continue
            nid = n.id
            lo = self.enclosing_tainted_loops(nid)
            lo_ord = retag(only(lo, {SET, ORDL, ORDD}), {SET, ORDD}, ORDL)
            if n.label == "for-head":
                bound, it = self.bind_iter_target(a.target, a.iter, nid, None)
                o = only(it, {SET, ORDL, ORDD})
                if not o <= self.loop_taint[id(a)]:
                    self.loop_taint[id(a)] |= o
                    changed = True
                for v in node_defs(n):
                    changed |= self.set_def(nid, v, bound.get(v, EMPTY))
                continue
            if n.kind == "with":
                for item in a.items:
                    t = self.T(item.context_expr, nid)
                    if item.optional_vars is not None:
                        for x in ast.walk(item.optional_vars):
                            if isinstance(x, ast.Name):
                                changed |= self.set_def(nid, x.id, t)
                continue
            if n.kind in ("test", "iter", "handler"):
                if isinstance(a, ast.expr):
                    self.T(a, nid)
                continue
            if isinstance(a, ast.Return):
                if a.value is not None:
                    t = self.T(a.value, nid)
                    if lo:
                        t |= to_val(lo)  # first-match return inside an order-tainted loop
                    if not t <= self.ret:
                        self.ret |= t
                        changed = True
                continue
            if isinstance(a, (ast.Assign, ast.AnnAssign)):
                if a.value is None:
                    continue
                t = self.T(a.value, nid)
                targets = a.targets if isinstance(a, ast.Assign) else [a.target]
                for tg in targets:
                    changed |= self.assign(nid, tg, t, a.value, lo, lo_ord)
                continue
            if isinstance(a, ast.AugAssign):
                t = self.T(a.value, nid)
                cur_t = EMPTY
                if isinstance(a.target, ast.Name):
                    cur_t = self.var_taint(nid, a.target.id)
                    new = cur_t | t
                    if lo:
                        # order-sensitive accumulation (list +=, str +=); numeric += is commutative but we cannot tell
                        new |= lo_ord
                    changed |= self.set_def(nid, a.target.id, new)
                else:
                    changed |= self.mutate(nid, a.target, t | lo_ord)
                continue
            if isinstance(a, ast.Expr):
                v = a.value
                t = self.T(v, nid)
                if isinstance(v, ast.Call) and isinstance(v.func, ast.Attribute):
                    m = v.func.attr
                    argt = EMPTY
                    for x in v.args:
                        argt |= self.T(x, nid)
                    for k in v.keywords:
                        argt |= self.T(k.value, nid)
                    if m in SET_MUTATORS:
                        changed |= self.mutate(nid, v.func.value, retag(only(argt, {VAL, VALS}), {VAL}, VALS))
                    elif m in MUTATORS_ORDER:
                        eff = retag(only(argt, {VAL, VALS}), {VAL}, VALS) | only(argt, {ORDL, ORDD}) | retag(only(argt, {SET}), {SET}, ORDL)
                        if m == "update":
                            eff = retag(eff, {ORDL}, ORDD)
                        eff |= lo_ord
                        changed |= self.mutate(nid, v.func.value, eff)
                    elif lo and not self.resolve_callees(v):
                        # unknown method with possible side effects inside an order-tainted loop
                        changed |= self.mutate(nid, v.func.value, lo_ord)
                continue
            if isinstance(a, (ast.Assert, ast.Raise, ast.Delete)):
                for c in ast.iter_child_nodes(a):
                    if isinstance(c, ast.expr):
                        self.T(c, nid)
                continue
        # live-out rule: a plain variable assigned inside an order-tainted loop and read after it
        # (or carried to the next iteration) holds a value chosen by iteration order
        for fo in self.for_asts:
            lt = self.loop_taint[id(fo)]
            if not lt:
                continue
            inside = self.loop_nodes[id(fo)]
            for n in cfg.nodes:
                if n.id in inside or n.ast is None:
                    continue
                # uses outside the loop
                from .cfg import node_uses

                for u in node_uses(n):
                    defs = self.IN.get(n.id, {}).get(u.id, set())
                    for d in defs:
                        if d in inside:
                            dn = cfg.nodes[d]
                            if isinstance(dn.ast, (ast.Assign, ast.AnnAssign)) and not self._is_accumulator(dn.ast, u.id):
                                changed |= self.set_def(d, u.id, to_val(lt))
        return changed

    def _is_accumulator(self, st, name) -> bool:
        """x = x or ..., x = x | ..., handled elsewhere (AugAssign); plain x = f(x) counts as accumulator."""
        v = st.value
        if v is None:
            return True
        names = {n.id for n in ast.walk(v) if isinstance(n, ast.Name)}
        if name in names:
            if isinstance(v, ast.BoolOp):
                return True
            if isinstance(v, ast.BinOp) and isinstance(v.op, (ast.BitOr, ast.BitAnd)):
                return True
        return False

    def assign(self, nid, tg, t, value, lo, lo_ord) -> bool:
        changed = False
        if isinstance(tg, ast.Name):
            return self.set_def(nid, tg.id, t)
        if isinstance(tg, (ast.Tuple, ast.List)):
            n = len(tg.elts)
            per = to_val(only(t, {VALS, VAL})) | retag(only(t, {CSET}), {CSET}, SET)
            if n > 1:
                per |= to_val(only(t, {SET, ORDL}))  # unpacking several names from an unordered source
            if isinstance(value, (ast.Tuple, ast.List)) and len(value.elts) == n:
                for a, b in zip(tg.elts, value.elts):
                    changed |= self.assign(nid, a, self.T(b, nid), b, lo, lo_ord)
                return changed
            for x in tg.elts:
                if isinstance(x, ast.Starred):
                    x = x.value
                changed |= self.assign(nid, x, per | (only(t, {ORDL, ORDD}) if False else EMPTY), value, lo, lo_ord)
            return changed
        if isinstance(tg, ast.Attribute):
            changed |= self.eng.add_field(tg.attr, t)
            return changed
        if isinstance(tg, ast.Subscript):
            # d[k] = v
            kt = self.T(tg.slice, nid)
            eff = frozenset((VALS, s_) for _k, s_ in only(t, {VAL, VALS, KEYS})) | frozenset((KEYS, s_) for _k, s_ in only(kt, {VAL, VALS}))
            eff |= retag(only(t, {SET}), {SET}, CSET)
            if lo:
                eff |= retag(lo_ord, {ORDL}, ORDD)
            # string-keyed store into a record dict: also a field write
            if isinstance(tg.slice, ast.Constant) and isinstance(tg.slice.value, str):
                changed |= self.eng.add_field(tg.slice.value, t)
            changed |= self.mutate(nid, tg.value, eff)
            return changed
        return changed


class Engine:
    def __init__(self, repo: Repo, client: Config, modules_prefix=("ffcx",)):
        self.repo = repo
        self.cfg_client = client
        self.param_taint: dict[tuple[str, str], frozenset] = defaultdict(lambda: EMPTY)
        self.ret_taint: dict[str, frozenset] = defaultdict(lambda: EMPTY)
        self.field_taint: dict[str, frozenset] = {}
        self.global_taint: dict[tuple[str, str], frozenset] = {}
        self.hits: dict[str, list] = defaultdict(list)
        self.changed = False
        self.fas: dict[str, FuncAnalysis] = {}
        self.by_name: dict[str, list[Func]] = defaultdict(list)
        self.records: dict[str, list[str]] = {}
        for m in repo.modules.values():
            for f in m.funcs.values():
                self.by_name[f.node.name].append(f)
            for cname, c in m.classes.items():
                bases = {dotted(b) or "" for b in c.bases}
                if any(b.endswith("NamedTuple") or b.endswith("TypedDict") for b in bases):
                    self.records[cname.split(".")[-1]] = [st.target.id for st in c.body if isinstance(st, ast.AnnAssign) and isinstance(st.target, ast.Name)]

    def add_param(self, f: Func, p: str, t) -> None:
        self.add_param_raw(f.key, p, t)

    def add_param_raw(self, fkey, p, t) -> bool:
        old = self.param_taint[(fkey, p)]
        if not t <= old:
            self.param_taint[(fkey, p)] = old | t
            self.changed = True
            return True
        return False

    def add_field(self, name: str, t) -> bool:
        if not t:
            return False
        old = self.field_taint.get(name, EMPTY)
        if not t <= old:
            self.field_taint[name] = old | t
            self.changed = True
            return True
        return False

    def add_global(self, mod, name, t) -> bool:
        old = self.global_taint.get((mod, name), EMPTY)
        if not t <= old:
            self.global_taint[(mod, name)] = old | t
            self.changed = True
            return True
        return False

    def record_class(self, fa: FuncAnalysis, call: ast.Call):
        nm = (call_name(call) or "").split(".")[-1]
        return self.records.get(nm)

    def hit(self, source_id, sink_desc, fa: FuncAnalysis, call, kind):
        rec = (sink_desc, fa.func.key, fa.mod.line(call), kind)
        if rec not in self.hits[source_id]:
            self.hits[source_id].append(rec)

    def resolve(self, fa: FuncAnalysis, call: ast.Call) -> list[Func]:
        f = call.func
        mod = fa.mod
        if isinstance(f, ast.Name):
            nm = f.id
            if nm in mod.funcs and "." not in nm:
                return [mod.funcs[nm]]
            # nested function of the current function
            q = f"{fa.func.qualname}.<locals>.{nm}"
            if q in mod.funcs:
                return [mod.funcs[q]]
            tgt = mod.imports.get(nm)
            if tgt and tgt.startswith("ffcx."):
                m2, _, fn = tgt.rpartition(".")
                m = self.repo.modules.get(m2)
                if m and fn in m.funcs:
                    return [m.funcs[fn]]
                if m and fn in m.classes and f"{fn}.__init__" in m.funcs:
                    return [m.funcs[f"{fn}.__init__"]]
            if nm in mod.classes and f"{nm}.__init__" in mod.funcs:
                return [mod.funcs[f"{nm}.__init__"]]
            return []
        if isinstance(f, ast.Attribute):
            d = dotted(f) or ""
            head = d.split(".")[0] if d else ""
            # module alias call: L.Symbol, naming.form_name, ffcx.naming.compute_signature ...
            if head in mod.imports and not head == "self":
                tgt = mod.imports[head]
                full = ".".join([tgt] + d.split(".")[1:])
                if full.startswith("ffcx"):
                    m2, _, fn = full.rpartition(".")
                    m = self.repo.modules.get(m2)
                    if m and fn in m.funcs:
                        return [m.funcs[fn]]
                    if m and fn in m.classes and f"{fn}.__init__" in m.funcs:
                        return [m.funcs[f"{fn}.__init__"]]
                    return []
                return []
            if d.startswith("ffcx."):
                m2, _, fn = d.rpartition(".")
                m = self.repo.modules.get(m2)
                if m and fn in m.funcs:
                    return [m.funcs[fn]]
                return []
            # method call: by name over all repo methods (over-approximation), at most 6 candidates
            cands = [g for g in self.by_name.get(f.attr, []) if g.cls is not None]
            if isinstance(f.value, ast.Name) and f.value.id == "self" and fa.func.cls is not None:
                own = [g for g in cands if g.cls is fa.func.cls]
                if own:
                    return own
            if 0 < len(cands) <= 6:
                return cands
        return []

    def run(self, max_iter=30):
        funcs = list(self.repo.all_funcs())
        for f in funcs:
            self.fas[f.key] = FuncAnalysis(self, f)
        for it in range(max_iter):
            self.changed = False
            for fa in self.fas.values():
                ch = fa.run()
                if not fa.ret <= self.ret_taint[fa.func.key]:
                    self.ret_taint[fa.func.key] |= fa.ret
                    self.changed = True
                self.changed |= ch
            if not self.changed:
                self.iterations = it + 1
                return
        self.iterations = max_iter
