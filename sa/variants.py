"""Self-test variants: (name, props, rules, kind, edits). kind = fire | benign.

Each edit is (path relative to the repo root, old text, new text); the old text must occur exactly
once in the current tree, otherwise the variant is skipped (reported, not failed).
"""

JIT = "ffcx/codegeneration/jit.py"
CF = "ffcx/codegeneration/C/formatter.py"
NF = "ffcx/codegeneration/numba/formatter.py"
LN = "ffcx/codegeneration/lnodes.py"
OPT = "ffcx/codegeneration/optimizer.py"

VARIANTS = []


def V(name, props, rules, kind, *edits, **kw):
    VARIANTS.append({"name": name, "props": props, "rules": rules, "kind": kind, "edits": list(edits), **kw})


# ---- C14 / C15 -----------------------------------------------------------------------------------
J = ["LOCK-PROTO", "FAIL-RELEASE", "RESTORE-PAIR"]
V("jit-lock-mode-w", ["C14", "C15"], J, "fire", (JIT, 'with open(c_filename, "x"):', 'with open(c_filename, "w"):'))
V("jit-marker-before-compile", ["C14", "C15"], J, "fire",
  (JIT, '    fd = open(ready_name, "x")\n    fd.write(s)\n    fd.close()\n', '    fd = open(ready_name, "x")\n    fd.close()\n'),
  (JIT, '    t0 = time.time()\n    f = io.StringIO()\n', '    fd = open(ready_name, "x")\n    fd.close()\n    t0 = time.time()\n    f = io.StringIO()\n'),
  )
V("jit-load-without-marker", ["C14", "C15"], J, "fire",
  (JIT, "            if os.path.exists(ready_name):\n                spec = finder.find_spec(module_name)\n                if spec is None:",
        "            spec = finder.find_spec(module_name)\n            if spec is not None or os.path.exists(ready_name):\n                if spec is None:"))
V("jit-cached-falls-through", ["C14"], J, "fire",
  (JIT, "        obj, mod = get_cached_module(module_name, form_names, cache_dir, timeout)\n        if obj is not None:\n            return obj, mod, (None, None)\n",
        "        obj, mod = get_cached_module(module_name, form_names, cache_dir, timeout)\n"))
V("jit-swallow-failure", ["C15"], J, "fire",
  (JIT, "            os.replace(c_filename, c_filename.with_suffix(\".c.failed\"))\n        except Exception:\n            pass\n        raise e\n\n    obj, module = _load_objects(cache_dir, module_name, form_names)",
        "            os.replace(c_filename, c_filename.with_suffix(\".c.failed\"))\n        except Exception:\n            pass\n        return None, None, (None, None)\n\n    obj, module = _load_objects(cache_dir, module_name, form_names)"))
V("jit-no-rename", ["C15"], J, "fire",
  (JIT, "            c_filename = cache_dir.joinpath(module_name + \".c\")\n            os.replace(c_filename, c_filename.with_suffix(\".c.failed\"))\n        except Exception:\n            pass\n        raise e\n\n    obj, module = _load_objects(cache_dir, module_name, expr_names)",
        "            c_filename = cache_dir.joinpath(module_name + \".c\")\n            logger.info(c_filename)\n        except Exception:\n            pass\n        raise e\n\n    obj, module = _load_objects(cache_dir, module_name, expr_names)"))
V("jit-narrow-handler", ["C15"], J, "fire",
  (JIT, "    except Exception as e:\n        try:\n            # remove c file so that it will not timeout next time\n            c_filename = cache_dir.joinpath(module_name + \".c\")\n            os.replace(c_filename, c_filename.with_suffix(\".c.failed\"))\n        except Exception:\n            pass\n        raise e\n\n    obj, module = _load_objects(cache_dir, module_name, form_names)",
        "    except RuntimeError as e:\n        try:\n            # remove c file so that it will not timeout next time\n            c_filename = cache_dir.joinpath(module_name + \".c\")\n            os.replace(c_filename, c_filename.with_suffix(\".c.failed\"))\n        except Exception:\n            pass\n        raise e\n\n    obj, module = _load_objects(cache_dir, module_name, form_names)"))
V("jit-restore-not-in-finally", ["C15"], J, "fire",
  (JIT, "    try:\n        with redirect_stdout(f):\n            ffibuilder.compile(tmpdir=cache_dir, verbose=True, debug=cffi_debug)\n    finally:\n        # Copy back the original handlers (in case someone is logging into\n        # root logger and has custom handlers), also if the compiler fails\n        root_logger.handlers = old_handlers\n",
        "    with redirect_stdout(f):\n        ffibuilder.compile(tmpdir=cache_dir, verbose=True, debug=cffi_debug)\n    root_logger.handlers = old_handlers\n"))
V("jit-stdout-swap", ["C15"], J, "fire",
  (JIT, "        with redirect_stdout(f):\n            ffibuilder.compile(tmpdir=cache_dir, verbose=True, debug=cffi_debug)\n",
        "        old_stdout = sys.stdout\n        sys.stdout = f\n        ffibuilder.compile(tmpdir=cache_dir, verbose=True, debug=cffi_debug)\n        sys.stdout = old_stdout\n"))
V("jit-unbounded-wait", ["C14", "C15"], J, "fire",
  (JIT, "        for i in range(timeout):\n", "        while True:\n"),
  (JIT, "        raise TimeoutError(\n            \"JIT compilation timed out, probably due to a failed previous compile. \"\n            f\"Try cleaning cache (e.g. remove {c_filename}) or increase timeout option.\"\n        )\n", ""))
V("jit-benign-rename-locals", ["C14", "C15"], J, "benign",
  (JIT, "    ready_name = c_filename.with_suffix(\".c.cached\")\n\n    # Ensure cache dir exists", "    ready_name = c_filename.with_suffix(\".c.cached\")\n    logger.debug(ready_name)\n\n    # Ensure cache dir exists"))
V("jit-benign-is-none-guard", ["C14", "C15"], J, "benign",
  (JIT, "        obj, mod = get_cached_module(module_name, expr_names, cache_dir, timeout)\n        if obj is not None:\n            return obj, mod, (None, None)\n",
        "        cached, mod = get_cached_module(module_name, expr_names, cache_dir, timeout)\n        if cached is None:\n            pass\n        else:\n            return cached, mod, (None, None)\n"))

# ---- C16 -----------------------------------------------------------------------------------------
F = ["PREC-GRAMMAR", "LOOP-BOUNDS", "STMT-TERM", "LIT-DIGITS"]
V("fmt-c-binop-gt", ["C16"], F, "fire",
  (CF, "        if oper.lhs.precedence >= oper.precedence:\n            lhs = f\"({lhs})\"\n        if oper.rhs.precedence >= oper.precedence:\n            rhs = f\"({rhs})\"",
       "        if oper.lhs.precedence >= oper.precedence:\n            lhs = f\"({lhs})\"\n        if oper.rhs.precedence > oper.precedence:\n            rhs = f\"({rhs})\""))
V("fmt-c-nary-gt", ["C16"], F, "fire",
  (CF, "            if oper.args[i].precedence >= oper.precedence:\n                args[i] = \"(\" + args[i] + \")\"",
       "            if oper.args[i].precedence > oper.precedence:\n                args[i] = \"(\" + args[i] + \")\""))
V("fmt-numba-nary-gt", ["C16", "C18"], F, "fire",
  (NF, "            if oper.args[i].precedence >= oper.precedence:\n                args[i] = f\"({args[i]})\"",
       "            if oper.args[i].precedence > oper.precedence:\n                args[i] = f\"({args[i]})\""))
V("fmt-prec-table-mul-add-swapped", ["C16"], F, "fire",
  (LN, "    MUL = 4\n    DIV = 4\n\n    ADD = 5\n    SUB = 5\n", "    MUL = 5\n    DIV = 5\n\n    ADD = 4\n    SUB = 4\n"))
V("fmt-prec-neg-loose", ["C16"], F, "fire", (LN, "    NOT = 3\n    NEG = 3\n", "    NOT = 3\n    NEG = 5\n"))
V("fmt-c-conditional-no-paren", ["C16"], F, "fire",
  (CF, "        if s.condition.precedence >= s.precedence:\n            c = \"(\" + c + \")\"", "        if s.condition.precedence > s.precedence:\n            c = \"(\" + c + \")\""))
V("fmt-digits-8", ["C16"], F, "fire", (CF, "            return f\"{x:.17}\"", "            return f\"{x:.8}\""))
V("fmt-c-neg-literal", ["C16"], F, "fire",
  (CF, "        if oper.arg.precedence >= oper.precedence or arg.startswith(oper.op):", "        if oper.arg.precedence >= oper.precedence:"))
V("fmt-numba-eq-chain", ["C16", "C18"], F, "fire",
  (NF, "        if isinstance(oper, (L.EQ, L.NE)):\n            precedence = L.PRECEDENCE.LT\n", ""))
V("fmt-c-assign-only", ["C16"], F, "fire",
  (CF, "    @__call__.register\n    def _(self, expr: L.AssignOp) -> str:", "    @__call__.register\n    def _(self, expr: L.Assign) -> str:"))
V("fmt-c-loop-le", ["C16"], F, "fire",
  (CF, "{index} < {end}; ++{index})", "{index} <= {end}; ++{index})"))
V("fmt-benign-extra-parens", ["C16"], F, "benign",
  (CF, "        if oper.arg.precedence >= oper.precedence or arg.startswith(oper.op):\n            return f\"{oper.op}({arg})\"\n        return f\"{oper.op}{arg}\"",
       "        return f\"{oper.op}({arg})\""))
V("fmt-benign-refactor-binop", ["C16"], F, "benign",
  (CF, "        # Return combined string\n        return f\"{lhs} {oper.op} {rhs}\"", "        # Return combined string\n        op = oper.op\n        return lhs + \" \" + op + \" \" + rhs"))
V("fmt-benign-digits-e", ["C16"], F, "benign", (CF, "            return f\"{x:.17}\"", "            return f\"{x:.16e}\""))

# ---- C17 -----------------------------------------------------------------------------------------
A = ["ALG-IDENT", "FOLD-HELPERS", "LICM-SOUND"]
V("alg-rsub-zero-self", ["C17"], A, "fire",
  (LN, "        other = as_lexpr(other)\n        if is_zero_lexpr(self):\n            return other\n        if is_zero_lexpr(other):\n            return -self\n",
       "        other = as_lexpr(other)\n        if is_zero_lexpr(self):\n            return other\n        if is_zero_lexpr(other):\n            return self\n"))
V("alg-sub-neg-other", ["C17"], A, "fire",
  (LN, "        if isinstance(other, Neg):\n            return Add(self, other.arg)\n        if isinstance(self, LiteralInt) and isinstance(other, LiteralInt):\n            return LiteralInt(self.value - other.value)",
       "        if isinstance(other, Neg):\n            return Sub(self, other.arg)\n        if isinstance(self, LiteralInt) and isinstance(other, LiteralInt):\n            return LiteralInt(self.value - other.value)"))
V("alg-mul-minus-one", ["C17"], A, "fire",
  (LN, "        if is_negative_one_lexpr(self):\n            return Neg(other)\n        if isinstance(self, LiteralInt) and isinstance(other, LiteralInt):",
       "        if is_negative_one_lexpr(self):\n            return other\n        if isinstance(self, LiteralInt) and isinstance(other, LiteralInt):"))
V("alg-is-one-helper", ["C17"], A, "fire",
  (LN, "    return (isinstance(lexpr, LiteralFloat) and lexpr.value == 1.0) or (\n        isinstance(lexpr, LiteralInt) and lexpr.value == 1\n    )",
       "    return (isinstance(lexpr, LiteralFloat) and lexpr.value == 1.0) or (\n        isinstance(lexpr, LiteralInt) and lexpr.value >= 1\n    )"))
V("alg-rdiv-order", ["C17"], A, "fire", (LN, "        return Div(other, self)", "        return Div(self, other)"))
V("alg-div-zero-numerator-first", ["C17"], A, "fire",
  (LN, "        other = as_lexpr(other)\n        if is_zero_lexpr(other):\n            raise ValueError(\"Division by zero!\")\n        if is_zero_lexpr(self):\n            return self\n        return Div(self, other)",
       "        other = as_lexpr(other)\n        if is_zero_lexpr(self):\n            return self\n        if is_zero_lexpr(other):\n            raise ValueError(\"Division by zero!\")\n        return Div(self, other)"))
V("alg-float-product-zero-filter", ["C17"], A, "fire",
  (LN, "    factors = [f for f in factors if not is_one_lexpr(f)]", "    factors = [f for f in factors if not is_one_lexpr(f) and not is_zero_lexpr(f)]"))
V("alg-float-product-empty", ["C17"], A, "fire", (LN, "        return LiteralFloat(1.0)\n    elif len(factors) == 1:", "        return LiteralFloat(0.0)\n    elif len(factors) == 1:"))
V("alg-multiindex-stride", ["C17", "C08"], A, "fire",
  (LN, "            self.global_index = Sum(n * sym for n, sym in zip(stride[1:], symbols))", "            self.global_index = Sum(n * sym for n, sym in zip(stride, symbols))"))
V("alg-ufl-division-swapped", ["C17"], A, "fire", (LN, "    ufl.algebra.Division: lambda x, a, b: a / b,", "    ufl.algebra.Division: lambda x, a, b: b / a,"))
V("alg-ufl-gt-swapped", ["C17"], A, "fire", (LN, "    ufl.classes.GT: lambda x, a, b: GT(a, b),", "    ufl.classes.GT: lambda x, a, b: GT(b, a),"))
# inverted polarity collects the factors that DO depend on the inner index; every generated product has exactly one table per
# argument, so there is never more than one candidate and licm becomes a no-op: the tensor is unchanged (PASS-EQUIV: equal
# meaning on all samples).  LICM-SOUND's structural objection is overruled -> benign with respect to C17.
V("opt-licm-polarity", ["C17"], A, "benign", (OPT, "                if not dependency:\n                    hoist_candidates.append(arg)", "                if dependency:\n                    hoist_candidates.append(arg)"))
V("opt-licm-outer-index", ["C17"], A, "fire", (OPT, "dependency = check_dependency(arg, inner_loop.index)", "dependency = check_dependency(arg, outer_loop.index)"))
V("opt-licm-preloop-after", ["C17"], A, "fire", (OPT, "    section.statements = pre_loop + section.statements", "    section.statements = section.statements + pre_loop"))
# the fall-through only matters for factor kinds other than ArrayAccess / Symbol / literals, which generate_block_parts never
# emits: unreachable difference -> benign with respect to C17
V("opt-check-dep-default-false", ["C17"], A, "benign",
  (OPT, "    else:\n        raise NotImplementedError(f\"Statement {statement} not supported.\")\n\n    return False", "    return False"))
V("opt-fuse-drop-declarations", ["C17"], A, "fire", (OPT, "                declarations.extend(section.declarations)\n", ""))
V("opt-fuse-loops-key", ["C17"], A, "fire", (OPT, "            id = (statement.index, statement.begin, statement.end)", "            id = (statement.index, statement.begin)"))
V("opt-licm-ungated", ["C17"], A, "fire", (OPT, "            if L.Annotation.licm in section.annotations:\n                section = licm(section, quadrature_rule)", "            if True:\n                section = licm(section, quadrature_rule)"))
V("alg-benign-elif", ["C17"], A, "benign",
  (LN, "        other = as_lexpr(other)\n        if is_zero_lexpr(self):\n            return -other\n        if is_zero_lexpr(other):\n            return self\n",
       "        other = as_lexpr(other)\n        if is_zero_lexpr(self):\n            return -other\n        elif is_zero_lexpr(other):\n            return self\n"))
V("alg-benign-extra-fold", ["C17"], A, "benign",
  (LN, "        if isinstance(self, Neg):\n            return Sub(other, self.arg)\n        return Add(other, self)", "        if isinstance(self, Neg):\n            return Sub(other, self.arg)\n        if isinstance(other, Neg):\n            return Sub(self, other.arg)\n        return Add(other, self)"))
V("opt-benign-rename", ["C17"], A, "benign", (OPT, "                dependency = check_dependency(arg, inner_loop.index)\n                if not dependency:\n", "                dep = check_dependency(arg, inner_loop.index)\n                if dep is False:\n"))

# ---- C12 / C13 -------------------------------------------------------------------------------------
ET = "ffcx/ir/elementtables.py"
IRI = "ffcx/ir/integral.py"
IG = "ffcx/codegeneration/integral_generator.py"
EG = "ffcx/codegeneration/expression_generator.py"
SYM = "ffcx/codegeneration/symbols.py"
NAM = "ffcx/naming.py"
REP = "ffcx/ir/representation.py"
RU = "ffcx/ir/representationutils.py"
FAC = "ffcx/ir/analysis/factorization.py"
CG = "ffcx/codegeneration/codegeneration.py"
D = ["ORDER-TAINT", "HISTORY-ID", "GLOBAL-STATE"]
V("det-fe-numbering-set", ["C12"], D, "fire",
  (ET, "        list(dict.fromkeys(ufl.algorithms.analysis.extract_sub_elements(all_elements)))", "        set(ufl.algorithms.analysis.extract_sub_elements(all_elements))"))
V("det-active-tables-unsorted", ["C12"], D, "fire", (IRI, "    for name in sorted(active_table_names):", "    for name in active_table_names:"))
V("det-section-inputs-set", ["C12"], D, "fire", (OPT, "    input = list(dict.fromkeys(input))", "    input = list(set(input))"))
V("det-block-inputs-set", ["C12"], D, "fire", (IG, "        input = list(dict.fromkeys(input))", "        input = list(set(input))"))
V("det-geometry-tables-unsorted", ["C12"], D, "fire", (EG, "            for c in sorted(cell_list):", "            for c in cell_list:"))
V("det-jacobian-ufl-id", ["C12", "C13"], D, "fire",
  (SYM, "        return L.Symbol(format_mt_name(f\"J{number}\", mt), dtype=L.DataType.REAL)", "        return L.Symbol(format_mt_name(f\"J{domain.ufl_id()}\", mt), dtype=L.DataType.REAL)"))
V("det-temp-symbol-id", ["C12"], D, "fire",
  (IG, "        name = f\"{basename}{self.symbol_counters[basename]:d}\"\n        self.symbol_counters[basename] += 1\n        return L.Symbol(name, dtype=L.DataType.SCALAR)\n\n    def get_temp_symbol",
       "        name = f\"{basename}{id(self) % 1000:d}\"\n        self.symbol_counters[basename] += 1\n        return L.Symbol(name, dtype=L.DataType.SCALAR)\n\n    def get_temp_symbol"))
V("det-noargs-mutated", ["C12"], D, "fire",
  (FAC, "                graph_insert(F, v)\n                factors = noargs\n", "                graph_insert(F, v)\n                factors = noargs\n                noargs[si] = v\n"))
V("det-codeblocks-set-of-names", ["C12"], D, "fire",
  (CG, "        for domain in set(i[0] for i in integral_ir.expression.integrand.keys())", "        for domain in set(i[0].name for i in integral_ir.expression.integrand.keys())"))
V("det-mutable-default-mutated", ["C12"], D, "fire",
  (JIT, "    p = ffcx.options.get_options(options)\n\n    # If requested, replace bi-linear forms by their diagonal part", "    options[\"seen\"] = True\n    p = ffcx.options.get_options(options)\n\n    # If requested, replace bi-linear forms by their diagonal part"))
V("det-benign-sorted-set", ["C12"], D, "benign", (OPT, "    input = list(dict.fromkeys(input))", "    input = sorted(set(input), key=lambda s: s.name)"))
V("det-benign-set-membership", ["C12"], D, "benign",
  (IG, "        # Make sure we don't have repeated symbols in input (keeping order:", "        _seen = set(input)\n        assert len(_seen) <= len(input)\n        # Make sure we don't have repeated symbols in input (keeping order:"))
V("det-benign-set-to-set", ["C12"], D, "benign",
  (IRI, "    active_tables: dict[str, npt.NDArray[np.float64]] = {}\n", "    _referenced = set()\n    for _n in active_table_names:\n        _referenced.add(_n)\n    active_tables: dict[str, npt.NDArray[np.float64]] = {}\n"))

S = ["ORDER-TAINT", "HISTORY-ID", "SIG-COMPLETE", "SIG-INJECTIVE", "NAME-KEY", "DIGEST-WIDTH", "JIT-FLOW", "SIG-RENUMBERING"]
V("sig-drop-version", ["C13"], S, "fire", (NAM, "        str(ffcx.__version__),\n", ""))
V("sig-drop-tag", ["C13"], S, "fire", (NAM, "        kind,\n        tag,\n    ]", "        kind,\n    ]"))
V("sig-drop-header-hash", ["C13"], S, "fire", (NAM, "        ffcx.codegeneration.get_signature(),\n", ""))
V("sig-repr-points", ["C13"], S, "fire",
  (NAM, "            object_signature += str(_points.shape)\n            object_signature += hashlib.sha1(_points.tobytes()).hexdigest()\n", "            object_signature += repr(_points)\n"))
V("sig-points-no-shape", ["C13"], S, "fire", (NAM, "            object_signature += str(_points.shape)\n", ""))
V("sig-no-domain-renumbering", ["C13"], S, "fire", (NAM, "            rn.update(dict((d, i) for i, d in enumerate(domains)))\n", ""))
V("sig-options-subset", ["C13"], S, "fire",
  (JIT, "    return str(sorted(options.items()))", "    return str(sorted((k, v) for k, v in options.items() if k != \"table_atol\"))"))
V("sig-no-compile-args", ["C13"], S, "fire",
  (JIT, "        _compute_option_signature(p) + _compilation_signature(cffi_extra_compile_args, cffi_debug, cffi_libraries),\n    )\n\n    form_names", "        _compute_option_signature(p),\n    )\n\n    form_names"))
V("sig-truncated", ["C13"], S, "fire", (NAM, "    return hashlib.sha1(string.encode(\"utf-8\")).hexdigest()", "    return hashlib.sha1(string.encode(\"utf-8\")).hexdigest()[:8]"))
V("sig-integral-name-no-index", ["C13", "C19"], S, "fire", (REP, "                prefix,\n                itg_index,\n            )", "                prefix,\n            )"))
V("sig-rule-id-3", ["C13", "C19"], S, "fire", (RU, "        return self.hash_obj.hexdigest()[-10:]", "        return self.hash_obj.hexdigest()[-3:]"))
V("sig-extract-type-set", ["C13"], S, "fire",
  (NAM, "            for gc in ufl.corealg.traversal.unique_pre_traversal(expr):\n                if isinstance(gc, ufl.classes.GeometricQuantity):\n                    domains.append(*ufl.domain.extract_domains(gc))",
        "            for gc in ufl.algorithms.analysis.extract_type(expr, ufl.classes.GeometricQuantity):\n                domains.append(*ufl.domain.extract_domains(gc))"))
V("sig-benign-local-copy", ["C13"], S, "benign", (JIT, "    return str(sorted(options.items()))", "    opts = dict(options)\n    return str(sorted(opts.items()))"))
V("sig-benign-tolist", ["C13"], S, "benign",
  (NAM, "            object_signature += hashlib.sha1(_points.tobytes()).hexdigest()\n", "            object_signature += str(_points.tolist())\n"))

# ---- C19 -------------------------------------------------------------------------------------------
R = ["FAIL-CLOSED", "CLOSED-DOMAINS", "STALE-LOOPVAR", "STMT-TERM", "NAME-KEY", "DIGEST-WIDTH", "PAIR-TEMPLATES"]
V("rob-ufl-to-lnodes-default", ["C19"], R, "fire",
  (LN, "    else:\n        raise RuntimeError(f\"Missing lookup for expr type {optype}.\")", "    else:\n        return LiteralFloat(0.0)"))
V("rob-reconstruct-fallthrough", ["C19"], R, "fire",
  (REC := "ffcx/ir/analysis/reconstruct.py", "        # Nothing found\n        raise RuntimeError(f\"Not expecting expression of type {type(o)} in here.\")", "        # Nothing found\n        return [o]"))
V("rob-access-get-none", ["C19"], R, "fire",
  ("ffcx/codegeneration/access.py", "        else:\n            raise RuntimeError(f\"Not handled: {type(e)}\")", "        else:\n            return None"))
V("rob-definitions-no-handler", ["C19"], R, "fire",
  ("ffcx/codegeneration/definitions.py", "        if handler is None:\n            raise NotImplementedError(f\"No handler for terminal type: {ttype}\")\n", "        if handler is None:\n            return []\n"))
V("rob-write-table-default", ["C19"], R, "fire",
  ("ffcx/codegeneration/geometry.py", "    raise ValueError(f\"Unknown geometry table name: {tablename}\")", "    return facet_orientation(tablename, cellname)"))
V("rob-entity-type-missing", ["C19", "C02"], R, "fire",
  (SYM, "        elif entity_type == \"ridge\":\n            return self.entity_local_index[0]\n", ""))
V("rob-entity-table-wrong", ["C19", "C02"], R, "fire", (REP, "        \"interior_facet\": \"facet\",", "        \"interior_facet\": \"cell\","))
V("rob-stale-table", ["C19", "C03"], R + ["GEN-TABLES"], "fire",
  (ET, "                    else:\n                        raise RuntimeError(\n                            f\"Facet quadrature permutations are not supported for cell {cell_type}.\"\n                        )\n", ""))
V("rob-stale-new-branch", ["C19"], R, "fire",
  (ET, "        if is_new_table:\n            _existing_tables[name] = tbl\n", "        if is_new_table:\n            _existing_tables[name] = tbl\n            first_name = name\n        if avg:\n            name = first_name\n"))
V("rob-carried-cell-type", ["C19", "C11"], R, "fire",
  (REP, "        for rule_cell_type, (points, weights, tensor_factors) in rules.items():\n            points = np.asarray(points)\n            weights = np.asarray(weights)\n            rule = QuadratureRule(points, weights, tensor_factors)\n\n            if rule_cell_type not in grouped_integrands:\n                grouped_integrands[rule_cell_type] = {}\n            if rule not in grouped_integrands[rule_cell_type]:\n                grouped_integrands[rule_cell_type][rule] = []\n            grouped_integrands[rule_cell_type][rule].append(integral.integrand())",
        "        for cell_type, (points, weights, tensor_factors) in rules.items():\n            points = np.asarray(points)\n            weights = np.asarray(weights)\n            rule = QuadratureRule(points, weights, tensor_factors)\n\n            if cell_type not in grouped_integrands:\n                grouped_integrands[cell_type] = {}\n            if rule not in grouped_integrands[cell_type]:\n                grouped_integrands[cell_type][rule] = []\n            grouped_integrands[cell_type][rule].append(integral.integrand())"))
V("rob-benign-match-default", ["C19"], R, "benign",
  (LN, "    else:\n        raise RuntimeError(f\"Missing lookup for expr type {optype}.\")", "    else:\n        msg = f\"Missing lookup for expr type {optype}.\"\n        raise RuntimeError(msg)"))
V("rob-benign-loop-temp", ["C19"], R, "benign",
  (ET, "        # Clean up table\n        tbl = clamp_table_small_numbers(t[\"array\"], rtol=rtol, atol=atol)", "        # Clean up table\n        raw = t[\"array\"]\n        if codim == 0:\n            raw = raw.copy()\n        tbl = clamp_table_small_numbers(raw, rtol=rtol, atol=atol)"))

# ---- C20 -------------------------------------------------------------------------------------------
MAINP = "ffcx/main.py"
OPTS = "ffcx/options.py"
CL = ["OPT-PRECEDENCE", "CLI-SENTINEL", "PAIR-TEMPLATES", "SUFFIX-ARITY", "SINGLE-PIPELINE", "ALIAS-NAMES"]
V("cli-update-order", ["C20"], CL, "fire",
  (OPTS, "    options.update(user_options)\n    options.update(pwd_options)\n", "    options.update(pwd_options)\n    options.update(user_options)\n"))
V("cli-priority-first", ["C20"], CL, "fire",
  (OPTS, "    options.update(user_options)\n    options.update(pwd_options)\n    if priority_options is not None:\n        options.update(priority_options)\n",
         "    if priority_options is not None:\n        options.update(priority_options)\n    options.update(user_options)\n    options.update(pwd_options)\n"))
V("cli-load-order-swapped", ["C20"], CL, "fire", (OPTS, "    return (user_options, pwd_options)", "    return (pwd_options, user_options)"))
V("cli-store-true-default", ["C20"], CL, "fire", (MAINP, "            action=\"store_true\",\n            default=None,\n", "            action=\"store_true\",\n"))
V("cli-filter-removed", ["C20"], CL, "fire",
  (MAINP, "    priority_options = {k: v for k, v in xargs.__dict__.items() if v is not None}", "    priority_options = dict(xargs.__dict__)"))
V("cli-extern-without-definition", ["C20", "C19"], CL, "fire",
  ("ffcx/codegeneration/C/form_template.py", "// Alias name\nufcx_form* {name_from_uflfile} = &{factory_name};\n", "// Alias name\n"))
V("cli-alias-from-index", ["C20"], CL + ["FORM-IR-SOURCES"], "fire",
  (REP, "    form_name = object_names.get(id(form_data.original_form), form_id)", "    form_name = object_names.get(id(form_data), form_id)"))
V("cli-header-name-mismatch", ["C20"], CL, "fire",
  ("ffcx/codegeneration/C/expression.py", "        factory_name=factory_name, name_from_uflfile=ir.name_from_uflfile\n    )", "        factory_name=factory_name, name_from_uflfile=ir.expression.name\n    )"))
V("cli-numba-two-files", ["C20", "C18"], CL, "fire", ("ffcx/codegeneration/numba/file.py", "suffixes = (\"_numba.py\",)", "suffixes = (\".h\", \"_numba.py\")"))
V("cli-codeblocks-order", ["C20"], CL, "fire",
  (CG, "    file_pre: list[tuple[str, str]]\n    integrals: list[tuple[str, str]]\n    forms: list[tuple[str, str]]\n", "    file_pre: list[tuple[str, str]]\n    forms: list[tuple[str, str]]\n    integrals: list[tuple[str, str]]\n"))
V("cli-generator-swapped-return", ["C20"], CL, "fire", ("ffcx/codegeneration/C/integral.py", "    return declaration, implementation", "    return implementation, declaration"))
V("cli-benign-vars", ["C20"], CL, "benign",
  (MAINP, "    priority_options = {k: v for k, v in xargs.__dict__.items() if v is not None}", "    priority_options = {k: v for k, v in vars(xargs).items() if v is not None}"))
V("cli-benign-comment", ["C20"], CL, "benign", (OPTS, "    options.update(user_options)\n", "    # user file first\n    options.update(user_options)\n"))

# ---- C06 / descriptors ---------------------------------------------------------------------------------
COM = "ffcx/codegeneration/common.py"
CFORM = "ffcx/codegeneration/C/form.py"
NFORM = "ffcx/codegeneration/numba/form.py"
UFCX = "ffcx/codegeneration/ufcx.h"
DS = ["IDX-SPACE", "PERM-CONSISTENT", "TYPE-ORDER", "EVERYWHERE-ID", "DESC-FIELDS", "FORM-IR-SOURCES", "CLOSED-DOMAINS", "KERNEL-SIG"]
V("desc-offsets-kernel-index", ["C06"], DS, "fire",
  (COM, "        offsets.append(offsets[-1] + sum(len(d) for d in ir.integral_domains[itg_type]))", "        offsets.append(offsets[-1] + sum(len(d) for d in domains[offsets[-1] :]))"))
V("desc-offsets-group-count", ["C06"], DS, "fire",
  (COM, "        offsets.append(offsets[-1] + sum(len(d) for d in ir.integral_domains[itg_type]))", "        offsets.append(offsets[-1] + len(_ids))"))
V("desc-names-not-permuted", ["C06"], DS, "fire",
  (COM, "        names += [ir.integral_names[itg_type][i] for i in id_sort]", "        names += [ir.integral_names[itg_type][i] for i in range(len(_ids))]"))
V("desc-type-order", ["C06"], DS, "fire",
  (COM, "    for itg_type in (\"cell\", \"exterior_facet\", \"interior_facet\", \"vertex\", \"ridge\"):", "    for itg_type in (\"cell\", \"interior_facet\", \"exterior_facet\", \"vertex\", \"ridge\"):"))
V("desc-otherwise-minus-two", ["C06"], DS, "fire", (REP, "sid if sid != \"otherwise\" else -1 for sid in itg_data.subdomain_id", "sid if sid != \"otherwise\" else -2 for sid in itg_data.subdomain_id"))
V("desc-negative-ids-accepted", ["C06", "C19"], DS + ["REJECTIONS", "SUBDOMAIN-IDS"], "fire",
  (REP, "        if any(sid != \"otherwise\" and not 0 <= sid < 2**31 for sid in itg_data.subdomain_id):\n            raise ValueError(\"Integral subdomain IDs must be non-negative and fit in a C int.\")\n", ""))
V("desc-minus-one-accepted", ["C06", "C19"], ["SUBDOMAIN-IDS"], "fire",
  (REP, "        if any(sid != \"otherwise\" and not 0 <= sid < 2**31 for sid in itg_data.subdomain_id):", "        if any(sid != \"otherwise\" and not -1 <= sid < 2**31 for sid in itg_data.subdomain_id):"))
V("desc-ids-benign-guard-form", ["C06", "C19"], ["SUBDOMAIN-IDS", "EVERYWHERE-ID"], "benign",
  (REP, "        if any(sid != \"otherwise\" and not 0 <= sid < 2**31 for sid in itg_data.subdomain_id):", "        user_ids = [sid for sid in itg_data.subdomain_id if sid != \"otherwise\"]\n        if user_ids and not (0 <= min(user_ids) and max(user_ids) < 2**31):"))
V("desc-names-not-repeated", ["C06"], ["EVERYWHERE-ID"], "fire", (REP, "        for _ in range(len(subdomain_ids)):\n            iname = integral_names[(form_id, itg_index)]", "        for _ in range(1):\n            iname = integral_names[(form_id, itg_index)]"))
V("desc-template-missing-field", ["C06", "C20"], DS, "fire", ("ffcx/codegeneration/C/form_template.py", "  .rank = {rank},\n", ""))
V("desc-numba-missing-attr", ["C06", "C18"], DS, "fire", ("ffcx/codegeneration/numba/form_template.py", "  num_constants = {num_constants}\n", ""))
V("desc-slot-wrong-source", ["C06"], DS + ["GEN-FORM"], "fire", (CFORM, "    d[\"rank\"] = ir.rank\n", "    d[\"rank\"] = ir.num_coefficients\n"))
V("desc-numba-slot-differs", ["C18"], DS + ["GEN-FORM"], "fire", (NFORM, "    d[\"num_coefficients\"] = ir.num_coefficients", "    d[\"num_coefficients\"] = ir.num_constants"))
V("desc-enum-renumbered", ["C06"], DS, "fire", (UFCX, "    exterior_facet = 1,\n    interior_facet = 2,", "    interior_facet = 1,\n    exterior_facet = 2,"))
V("desc-constants-from-reduced", ["C06", "C05"], DS + ["PREFIX-OFFSETS"], "fire",
  (REP, "    ir[\"num_constants\"] = len(form_data.original_form.constants())", "    ir[\"num_constants\"] = len(form_data.preprocessed_form.constants())"))
V("desc-kernel-sig-geom-type", ["C09", "C04"], DS, "fire",
  ("ffcx/codegeneration/C/integral_template.py", "const {geom_type}* restrict coordinate_dofs", "const {scalar_type}* restrict coordinate_dofs"))
V("desc-benign-rename-perm", ["C06"], DS, "benign",
  (COM, "        id_sort = np.argsort(_ids)\n\n        ids += [_ids[i] for i in id_sort]\n        names += [ir.integral_names[itg_type][i] for i in id_sort]\n        domains += [ir.integral_domains[itg_type][i] for i in id_sort]",
        "        perm = np.argsort(_ids)\n\n        ids += [_ids[k] for k in perm]\n        names += [ir.integral_names[itg_type][k] for k in perm]\n        domains += [ir.integral_domains[itg_type][k] for k in perm]"))
V("desc-benign-count-before", ["C06"], DS, "benign",
  (COM, "        ids += [_ids[i] for i in id_sort]", "        n_before = len(domains)\n        ids += [_ids[i] for i in id_sort]"),
  (COM, "sum(len(d) for d in ir.integral_domains[itg_type]))", "sum(len(d) for d in domains[n_before:]))"))

# ---- C07 / C05 / C08 / C02 kernel shape ------------------------------------------------------------------
DEF = "ffcx/codegeneration/definitions.py"
ACC = "ffcx/codegeneration/access.py"
K = ["ACCUMULATE-ONLY", "NO-MUTABLE-STATIC", "ACCESSOR-ONLY", "PREFIX-OFFSETS", "SLOT-RESTRICTION", "MACRO-DOUBLING", "GEN-BLOCKS", "GEN-DEFS", "GEN-EXPR", "GEN-INTEGRAL", "GEN-TABLES"]
V("ker-assign-on-A", ["C07", "C01"], K, "fire", (IG, "                body.append(L.AssignAdd(A[multi_index], expression))", "                body.append(L.Assign(A[multi_index], expression))"))
V("ker-expr-assign-on-A", ["C07", "C04"], K, "fire", (EG, "                    quadparts.append(L.AssignAdd(A[multi_index], Brhs))", "                    quadparts.append(L.Assign(A[multi_index], Brhs))"))
V("ker-table-not-const", ["C07"], K, "fire", (IG, "        return [L.ArrayDecl(table_symbol, values=table, const=True)]", "        return [L.ArrayDecl(table_symbol, values=table)]"))
V("ker-static-all", ["C07"], K, "fire", (CF, "        cstr = \"static const \" if arr.const else \"\"", "        cstr = \"static const \" if arr.const else \"static \""))
V("ker-assignadd-op", ["C07"], K, "fire", (LN, "    op = \"+=\"", "    op = \"=\""))
V("ker-write-coordinate-dofs", ["C07"], K, "fire",
  (DEF, "        body = [L.AssignAdd(access, dof_access[ic.global_index * dim + begin + offset] * FE)]", "        body = [L.AssignAdd(dof_access[ic.global_index * dim + begin + offset], access * FE)]"))
V("ker-offset-after-increment", ["C05"], K, "fire",
  (REP, "            coefficient_offsets[coeff] = _offset\n            _offset += width * element_dimensions[el]", "            _offset += width * element_dimensions[el]\n            coefficient_offsets[coeff] = _offset"))
V("ker-width-facets", ["C05", "C02"], K, "fire", (REP, "        width = 2 if integral_type in (\"interior_facet\") else 1", "        width = 2 if \"facet\" in integral_type else 1"))
V("ker-constant-wrong-table", ["C05"], K, "fire", (SYM, "        offset = self.original_constant_offsets[constant]", "        offset = self.coefficient_offsets.get(constant, 0)"))
V("ker-w-outside-accessor", ["C05", "C08"], K, "fire",
  (ACC, "            return self.symbols.coefficient_dof_access(mt.terminal, begin)", "            return self.symbols.coefficients[begin]"))
V("ker-enabled-inverted", ["C05"], K, "fire",
  ("ffcx/codegeneration/C/integral.py", "        values = \", \".join(\"1\" if i else \"0\" for i in ir.enabled_coefficients)", "        values = \", \".join(\"0\" if i else \"1\" for i in ir.enabled_coefficients)"))
V("ker-entity-no-cell-return", ["C08"], K, "fire",
  (SYM, "        if entity_type == \"cell\":\n            # Always 0 for cells (even with restriction)\n            return L.LiteralInt(0)\n\n        if entity_type == \"facet\":", "        if entity_type == \"facet\" or entity_type == \"cell\":"))
V("ker-minus-uses-slot0", ["C02", "C08"], K, "fire",
  (SYM, "            if restriction == \"-\":\n                return self.entity_local_index[1]\n            else:\n                return self.entity_local_index[0]", "            if restriction == \"-\":\n                return self.entity_local_index[0]\n            else:\n                return self.entity_local_index[0]"))
V("ker-perm-plus-uses-slot1", ["C02", "C03"], K, "fire",
  (ACC, "            qp = self.symbols.quadrature_permutation[0]\n            if restriction == \"-\":\n                qp = self.symbols.quadrature_permutation[1]", "            qp = self.symbols.quadrature_permutation[1]\n            if restriction == \"-\":\n                qp = self.symbols.quadrature_permutation[0]"))
V("ker-perm-unguarded", ["C08"], K, "fire",
  (ACC, "        if tabledata.is_permuted:\n            qp = self.symbols.quadrature_permutation[0]", "        if True:\n            qp = self.symbols.quadrature_permutation[0]"))
V("ker-coordinate-shift-gdim", ["C02"], K, "fire", (SYM, "            offset = num_scalar_dofs * 3", "            offset = num_scalar_dofs * gdim"))
V("ker-coordinate-stride-gdim", ["C02"], K + ["GEN-DEFS"], "fire", (DEF, "        # coordinate dofs is always 3d\n        dim = 3", "        # coordinate dofs is always 3d\n        dim = domain.geometric_dimension"))
V("ker-shape-not-doubled", ["C02", "C08"], K, "fire", (REP, "            expression_ir[\"tensor_shape\"] = [2 * dim for dim in argument_dimensions]", "            expression_ir[\"tensor_shape\"] = [dim for dim in argument_dimensions]"))
V("ker-minus-shift-all-terminals", ["C02"], K, "fire",
  (ET, "        if mt.restriction == \"-\" and isinstance(mt.terminal, ufl.classes.FormArgument):", "        if mt.restriction == \"-\":"))
# (ker-loop-bound-other-table referred to an attribute that does not exist - an AttributeError any run shows; removed)
V("ker-dof-range-first-axis", ["C08"], ["GEN-BLOCKS", "GEN-DEFS", "GEN-EXPR", "GEN-KERNEL", "GEN-KERNEL-FACET"], "fire", (DEF, "        ranges = [tabledata.values.shape[-1]]", "        ranges = [tabledata.values.shape[-2]]"))
V("ker-nested-loops-shifted", ["C08"], ["GEN-BLOCKS", "GEN-DEFS", "GEN-EXPR", "GEN-KERNEL", "GEN-KERNEL-FACET"], "fire", (LN, "        body = ForRange(indices[i], 0, ranges[i], body=[body])", "        body = ForRange(indices[i], 0, ranges[i - 1], body=[body])"))
V("ker-A-shape-raw", ["C08"], ["GEN-BLOCKS", "GEN-DEFS", "GEN-EXPR", "GEN-KERNEL", "GEN-KERNEL-FACET"], "fire", (IG, "        A_shape = self.ir.expression.tensor_shape", "        A_shape = [len(b) for b in blockmap]"))
V("ker-benign-rename-ic", ["C08", "C02"], K, "benign",
  (DEF, "        ic = create_dof_index(tabledata, ic_symbol)\n        iq = create_quadrature_index(quadrature_rule, iq_symbol)\n        FE, tables = self.access.table_access(tabledata, self.entity_type, mt.restriction, iq, ic)\n\n        dof_access = L.Symbol(\"coordinate_dofs\", dtype=L.DataType.REAL)",
        "        dof_idx = create_dof_index(tabledata, ic_symbol)\n        q_idx = create_quadrature_index(quadrature_rule, iq_symbol)\n        FE, tables = self.access.table_access(tabledata, self.entity_type, mt.restriction, q_idx, dof_idx)\n\n        dof_access = L.Symbol(\"coordinate_dofs\", dtype=L.DataType.REAL)"),
  (DEF, "        body = [L.AssignAdd(access, dof_access[ic.global_index * dim + begin + offset] * FE)]\n        code = [L.create_nested_for_loops([ic], body)]\n\n        name = type(mt.terminal).__name__\n        output = [access]", "        body = [L.AssignAdd(access, dof_access[dof_idx.global_index * dim + begin + offset] * FE)]\n        code = [L.create_nested_for_loops([dof_idx], body)]\n\n        name = type(mt.terminal).__name__\n        output = [access]"))
V("ker-benign-temp-name", ["C07"], K, "benign", (OPT, "                name = f\"temp_{counter}\"", "                name = f\"hoisted_{counter}\""))

# ---- C03 -------------------------------------------------------------------------------------------------
P = ["PERM-AXIS", "PERM-FLAG-IMPL", "GEN-INTEGRAL-DRIVER", "SLOT-RESTRICTION", "GEN-TABLES"]
V("perm-loops-swapped", ["C03"], P, "fire",
  (ET, "                        for rot in range(3):\n                            for ref in range(2):", "                        for ref in range(2):\n                            for rot in range(3):"))
V("perm-args-swapped", ["C03"], P, "fire", (ET, "                                        permute_quadrature_quadrilateral(\n                                            quadrature_rule.points, ref, rot\n                                        ),", "                                        permute_quadrature_quadrilateral(\n                                            quadrature_rule.points, rot, ref\n                                        ),"))
V("perm-quad-three-rotations", ["C03"], P, "fire", (ET, "                        for rot in range(4):", "                        for rot in range(3):"))
V("perm-triangle-rotation-map", ["C03"], P, "fire", (ET, "            output[n] = [p[1], 1 - p[0] - p[1]]", "            output[n] = [1 - p[0] - p[1], p[0]]"))
V("perm-axis-always-dropped", ["C03"], P, "fire", (ET, "        if not is_permuted:\n            # Reduce table along num_perms axis\n            tbl = tbl[:1, :, :, :]", "        if True:\n            # Reduce table along num_perms axis\n            tbl = tbl[:1, :, :, :]"))
V("perm-flag-restrictions-only", ["C03"], P, "fire",
  (IRI, "            if not needs_facet_permutations:\n                needs_facet_permutations = any(\n                    table.shape[0] > 1 for table in active_tables.values()\n                )\n", ""))
V("perm-flag-overwritten", ["C03"], P, "fire",
  (IRI, "            if not needs_facet_permutations:\n                needs_facet_permutations = (\n                    \"+\" in restrictions and \"-\" in restrictions\n                ) or is_mixed_dim\n            # The kernel reads quadrature_permutation whenever one of its tables\n            # kept its permutation axis (e.g. one-sided interior facet terms)\n            if not needs_facet_permutations:\n                needs_facet_permutations = any(",
        "            needs_facet_permutations = (\n                \"+\" in restrictions and \"-\" in restrictions\n            ) or is_mixed_dim\n            # The kernel reads quadrature_permutation whenever one of its tables\n            # kept its permutation axis (e.g. one-sided interior facet terms)\n            if True:\n                needs_facet_permutations = any("))
V("perm-in-place", ["C03"], P, "fire", (ET, "def permute_quadrature_triangle(points, reflections=0, rotations=0):\n    \"\"\"Permute quadrature points for a triangle.\"\"\"\n    output = points.copy()", "def permute_quadrature_triangle(points, reflections=0, rotations=0):\n    \"\"\"Permute quadrature points for a triangle.\"\"\"\n    output = points"))
V("perm-benign-keywords", ["C03"], P, "benign",
  (ET, "                                        permute_quadrature_triangle(\n                                            quadrature_rule.points, ref, rot\n                                        ),", "                                        permute_quadrature_triangle(\n                                            quadrature_rule.points, rotations=rot, reflections=ref\n                                        ),"))

# ---- C09 / C18 ---------------------------------------------------------------------------------------------
B = ["MATH-TABLES", "BACKEND-SIBLING", "TYPE-ROLES", "KERNEL-SIG", "LIT-DIGITS", "DTYPE-MERGE", "MATH-ARGTYPE"]
V("be-cos-is-sin", ["C09"], B, "fire", (CF, "        \"cos\": \"cosf\",", "        \"cos\": \"sinf\","))
V("be-float64-uses-float", ["C09"], B, "fire", (CF, "    \"float64\": {\n        \"sqrt\": \"sqrt\",", "    \"float64\": {\n        \"sqrt\": \"sqrtf\","))
V("be-complex-uses-real", ["C09"], B, "fire", (CF, "        \"exp\": \"cexp\",", "        \"exp\": \"exp\","))
# a missing float32 key falls back to the double function on a promoted argument: same value to float precision -> benign
V("be-float32-missing-key", ["C09"], B, "benign", (CF, "        \"erf\": \"erff\",\n", ""))
# a missing complex key falls back to the real function: the imaginary part is discarded by the implicit conversion
V("be-complex64-missing-key", ["C09"], B, "fire", (CF, "        \"sqrt\": \"csqrtf\",\n", ""))
V("be-geom-type-scalar", ["C09"], B + ["GEN-INTEGRAL"], "fire",
  ("ffcx/codegeneration/C/integral.py", "        geom_type=dtype_to_c_type(dtype_to_scalar_dtype(options[\"scalar_type\"])),  # type: ignore", "        geom_type=dtype_to_c_type(options[\"scalar_type\"]),  # type: ignore"))
V("be-complex-h-inverted", ["C09"], B, "fire", ("ffcx/codegeneration/C/file.py", "    if np.issubdtype(options[\"scalar_type\"], np.complexfloating):", "    if not np.issubdtype(options[\"scalar_type\"], np.floating):\n        pass\n    if np.issubdtype(options[\"scalar_type\"], np.floating):"))
V("be-coordinate-dofs-scalar", ["C09"], B, "fire", (SYM, "        self.coordinate_dofs = L.Symbol(\"coordinate_dofs\", dtype=L.DataType.REAL)", "        self.coordinate_dofs = L.Symbol(\"coordinate_dofs\", dtype=L.DataType.SCALAR)"))
V("be-real-typed-scalar", ["C09"], B, "fire",
  (IG, "    is_real = isinstance(v, (ufl.classes.Real, ufl.classes.Imag))\n    if is_real:\n        return L.DataType.REAL", "    is_real = isinstance(v, (ufl.classes.Real,))\n    if is_real:\n        return L.DataType.REAL"))
V("be-remove-complex-always", ["C09"], B, "fire", ("ffcx/analysis.py", "    if not np.issubdtype(scalar_type, np.complexfloating):\n        expression = ufl.algorithms.remove_complex_nodes", "    if np.issubdtype(scalar_type, np.floating) or True:\n        expression = ufl.algorithms.remove_complex_nodes"))
V("be-numba-ln-log10", ["C18"], B, "fire", (NF, "            \"ln\": \"log\",", "            \"ln\": \"log10\","))
V("be-numba-no-conditional", ["C18"], B, "fire",
  (NF, "    @__call__.register\n    def _(self, s: L.Conditional) -> str:\n        \"\"\"Format a conditional.\"\"\"", "    def _conditional(self, s: L.Conditional) -> str:\n        \"\"\"Format a conditional.\"\"\""))
V("be-numba-sizes-single", ["C18", "C08"], B, "fire", (COM, "    width = 2 if ir.expression.integral_type == \"interior_facet\" else 1", "    width = 1"))
V("be-numba-params-swapped", ["C18"], B, "fire",
  ("ffcx/codegeneration/numba/integral_template.py", "def tabulate_tensor_{factory_name}(_A, _w, _c, _coordinate_dofs,", "def tabulate_tensor_{factory_name}(_A, _c, _w, _coordinate_dofs,"))
V("be-benign-extra-row-entry", ["C09"], B, "benign", (CF, "        \"erf\": \"erf\",\n        \"atan_2\": \"atan2\",", "        \"erf\": \"erf\",\n        \"atan2\": \"atan2\",\n        \"atan_2\": \"atan2\","))

# ---- C01 / C04 / C10 / C11 ---------------------------------------------------------------------------------
AN = "ffcx/analysis.py"
PL = ["PIPE-FLAGS", "FACT-LAWS", "GEN-KERNEL", "GEN-BLOCKS", "SCOPE-KEY", "QMETA-FLOW", "QMETA-INTERP", "GEN-INTEGRAL-IR", "QRULE-GROUP", "QUAD-FAMILY", "OPT-GATE", "EXPR-LAYOUT", "RULE-SCOPED-NAMES", "STALE-LOOPVAR", "GEN-PARTITION"]
V("pipe-no-integral-scaling", ["C01"], PL, "fire", (AN, "        do_apply_integral_scaling=True,", "        do_apply_integral_scaling=False,"))
V("pipe-no-pullbacks", ["C01"], PL, "fire", (AN, "        do_apply_function_pullbacks=True,\n", ""))
V("pipe-jacobian-not-preserved", ["C01"], PL, "fire", (AN, "        preserve_geometry_types=(ufl.classes.Jacobian,),\n        do_apply_restrictions=True,", "        preserve_geometry_types=(),\n        do_apply_restrictions=True,"))
V("pipe-expression-order", ["C04"], PL, "fire",
  (AN, "    expression = ufl.algorithms.apply_derivatives.apply_derivatives(expression)\n    expression = ufl.algorithms.apply_function_pullbacks.apply_function_pullbacks(expression)\n",
       "    expression = ufl.algorithms.apply_function_pullbacks.apply_function_pullbacks(expression)\n    expression = ufl.algorithms.apply_derivatives.apply_derivatives(expression)\n"))
V("fact-sum-is-difference", ["C01"], PL, "fire", (FAC, "                fisum = graph_insert(F, f0 + f1)", "                fisum = graph_insert(F, f0 - f1)"))
V("fact-sum-drops-one-sided", ["C01"], PL, "fire", (FAC, "            if fi0 is None:\n                fisum = fi1\n            elif fi1 is None:\n                fisum = fi0", "            if fi0 is None:\n                fisum = fi0\n            elif fi1 is None:\n                fisum = fi0"))
V("fact-division-inverted", ["C01"], PL, "fire", (FAC, "            factors[k0] = graph_insert(F, f0 / f1)", "            factors[k0] = graph_insert(F, f1 / f0)"))
V("fact-conditional-swapped", ["C01"], PL, "fire", (FAC, "            factors[k] = graph_insert(F, conditional(f0, f1, f2))", "            factors[k] = graph_insert(F, conditional(f0, f2, f1))"))
V("fact-product-key-unsorted", ["C01"], PL, "fire", (FAC, "                argkey = tuple(sorted(k0 + k1))  # sort key for canonical representation", "                argkey = tuple(k0)  # sort key for canonical representation"))
V("coh-other-rule-graph", ["C01", "C11"], PL, "fire",
  (IG, "            F = self.ir.expression.integrand[(domain, quadrature_rule)][\"factorization\"]\n\n            v = F.nodes[factor_index][\"expression\"]", "            F = next(iter(self.ir.expression.integrand.values()))[\"factorization\"]\n\n            v = F.nodes[factor_index][\"expression\"]"))
V("coh-swapped-dispatch", ["C01", "C11"], PL, "fire", (IG, "                all_quadparts += self.generate_quadrature_loop(rule, cell)", "                all_quadparts += self.generate_quadrature_loop(cell, rule)"))
V("scope-guard-with-fallback", ["C11", "C01"], PL, "fire",
  (IG, "            if not v._ufl_is_literal_ and self.scopes[(domain, quadrature_rule)].get(v) is None:", "            if not self.get_var(quadrature_rule, domain, v):"))
V("qmeta-max-degree", ["C11"], PL, "fire",
  (AN, "                if qd < 0:\n                    qd = int(np.max(integral.metadata()[\"estimated_polynomial_degree\"]))", "                if qd < int(np.max(integral.metadata()[\"estimated_polynomial_degree\"])):\n                    qd = int(np.max(integral.metadata()[\"estimated_polynomial_degree\"]))"))
V("qmeta-degree-scheme-swapped", ["C11"], PL, "fire", (REP, "                ufl_cell,\n                degree,\n                scheme,\n                argument_elements,", "                ufl_cell,\n                scheme,\n                degree,\n                argument_elements,"))
V("qmeta-vertex-weights", ["C11"], PL, "fire", (REP, "            weights = np.full(points.shape[0], cell_volume / points.shape[0], dtype=points.dtype)", "            weights = np.full(points.shape[0], cell_volume, dtype=points.dtype)"))
V("qmeta-rule-eq-points-only", ["C11"], PL, "fire", (RU, "        return np.allclose(self.points, other.points) and np.allclose(self.weights, other.weights)", "        return np.allclose(self.points, other.points)"))
V("qmeta-facet-degree-plus-one", ["C11"], PL, "fire", (RU, "            pts[ft.cellname], wts[ft.cellname] = create_quadrature(\n                ft.cellname,\n                degree,", "            pts[ft.cellname], wts[ft.cellname] = create_quadrature(\n                ft.cellname,\n                degree + 1,"))
V("opt-diagonal-ungated", ["C10"], PL, "fire", (IG, "            if self.ir.part == TensorPart.diagonal and block_rank == 2:\n                insert_rank = 1", "            if self.ir.part == TensorPart.diagonal:\n                insert_rank = 1"))
V("opt-tolerance-dropped", ["C10"], PL, "fire", (IRI, "        rtol=p[\"table_rtol\"],\n        atol=p[\"table_atol\"],\n", ""))
# benign: create_quadrature_points_and_weights itself ignores the option for non-cell integrals (quadrature matrix), so the caller-side filter is redundant
V("opt-tensor-rule-facets", ["C10"], PL, "benign", (REP, "    use_sum_factorization = sum_factorization and integral_type == \"cell\"", "    use_sum_factorization = sum_factorization"))
V("expr-index-roles-swapped", ["C04"], PL, "fire", (EG, "                indices = [A_indices[0], fi_ci[1]] + list(A_indices[1:])", "                indices = [fi_ci[1], A_indices[0]] + list(A_indices[1:])"))
V("expr-entity-from-cell", ["C04"], PL, "fire", (REP, "        elif tdim - 1 == pdim:\n            base_ir[\"entity_type\"] = \"facet\"", "        elif tdim - 1 == pdim:\n            base_ir[\"entity_type\"] = \"cell\""))
V("pipe-benign-rename-fact", ["C01"], PL, "benign",
  (FAC, "                f0 = F.nodes[fi0][\"expression\"]\n                f1 = F.nodes[fi1][\"expression\"]\n                fisum = graph_insert(F, f0 + f1)", "                lhs = F.nodes[fi0][\"expression\"]\n                rhs = F.nodes[fi1][\"expression\"]\n                fisum = graph_insert(F, lhs + rhs)"))
V("pipe-benign-guard-local", ["C11", "C01"], PL, "benign",
  (IG, "            if not v._ufl_is_literal_ and self.scopes[(domain, quadrature_rule)].get(v) is None:", "            cached = self.scopes[(domain, quadrature_rule)].get(v)\n            if not v._ufl_is_literal_ and cached is None:"))


# ---- open finding C01/C11: shared piecewise scope; a repaired scratch copy is silent -----------------
ET = "ffcx/ir/elementtables.py"
V("repair-piecewise-needs-two-points", ["C01", "C11"], ["SCOPE-KEY"], "repair",
  (ET, "    return all(\n        np.allclose(table[0, :, 0, :], table[0, :, i, :], rtol=rtol, atol=atol)\n        for i in range(1, table.shape[2])\n    )",
       "    return table.shape[2] > 1 and all(\n        np.allclose(table[0, :, 0, :], table[0, :, i, :], rtol=rtol, atol=atol)\n        for i in range(1, table.shape[2])\n    )"),
  expect_key="shared-scope-vs-per-rule-classification")
V("repair-piecewise-scope-per-rule", ["C01", "C11"], ["SCOPE-KEY"], "repair",
  (IG, 'return self.generate_partition(arraysymbol, F, "piecewise", None, None)',
       'return self.generate_partition(arraysymbol, F, "piecewise", quadrature_rule, domain)'),
  expect_key="shared-scope-vs-per-rule-classification")

# ---- C17 PASS-EQUIV: translation validation of the optimiser passes ---------------------------------
OPTF = "ffcx/codegeneration/optimizer.py"
PE = ["PASS-EQUIV"]
V("pass-licm-temp-too-small", ["C17"], PE, "fire", (OPTF, "                size = outer_loop.end.value - outer_loop.begin.value", "                size = outer_loop.end.value - outer_loop.begin.value - 1"))
V("pass-licm-temp-accumulates", ["C17"], PE, "benign", (OPTF, "                body = L.Assign(\n", "                body = L.AssignAdd(\n"))
V("pass-licm-hoist-single", ["C17"], PE, "benign", (OPTF, "            if len(hoist_candidates) > 1:", "            if len(hoist_candidates) > 0:"))
V("pass-licm-dependency-missed", ["C17"], PE, "fire", (OPTF, "                    if index in i.args:\n                        return True", "                    if index in i.args:\n                        return False"))
V("pass-licm-temp-indexed-by-inner", ["C17"], PE, "fire", (OPTF, "                r.args.append(L.ArrayAccess(temp, [outer_loop.index]))", "                r.args.append(L.ArrayAccess(temp, [inner_loop.index]))"))
V("pass-licm-drops-a-candidate", ["C17"], PE, "fire", (OPTF, "                    L.ArrayAccess(temp, [outer_loop.index]), L.Product(hoist_candidates)", "                    L.ArrayAccess(temp, [outer_loop.index]), L.Product(hoist_candidates[:1])"))
V("pass-fuse-loops-ignores-end", ["C17"], PE, "fire", (OPTF, "            id = (statement.index, statement.begin, statement.end)", "            id = (statement.index, statement.begin, statement.begin)"),
  (OPTF, "        output_code.append(L.ForRange(*range, body))", "        output_code.append(L.ForRange(range[0], range[1], body[0].statements[0].end if False else L.LiteralInt(3), body))"))
V("pass-fuse-sections-drops-declarations", ["C17"], PE, "fire", (OPTF, "                declarations.extend(section.declarations)\n", ""))
V("pass-fuse-sections-keeps-last-only", ["C17"], PE, "fire", (OPTF, "                statements.extend(section.statements)", "                statements = list(section.statements)"))
V("pass-optimize-skips-licm", ["C17"], PE, "benign", (OPTF, "            if L.Annotation.licm in section.annotations:\n                section = licm(section, quadrature_rule)", "            if False:\n                section = licm(section, quadrature_rule)"))

# ---- rules added after the third seeding round --------------------------------------------------------
TI = ["TABLE-INDEX", "GEN-TABLES"]
V("tidx-symbols-perm-only-restricted", ["C04", "C03"], TI, "fire",
  (SYM, "        if tabledata.is_permuted:\n            qp = self.quadrature_permutation[0]\n            if restriction == \"-\":", "        if tabledata.is_permuted and restriction is not None:\n            qp = self.quadrature_permutation[0]\n            if restriction == \"-\":"),
  (SYM, "                qp = self.quadrature_permutation[1]\n        else:\n            qp = 0", "                qp = self.quadrature_permutation[1]\n        else:\n            qp = 0\n        qp = qp if tabledata.is_permuted and restriction is not None else 0"))
V("tidx-access-entity-always", ["C02", "C08"], TI, "fire", (ACC, "        if tabledata.is_uniform:\n            entity = L.LiteralInt(0)\n", "        if False:\n            entity = L.LiteralInt(0)\n"))
V("tidx-access-piecewise-dropped", ["C02", "C08"], TI, "fire", (ACC, "        if tabledata.is_piecewise:\n            iq_global_index = L.LiteralInt(0)\n", ""))
V("tidx-access-minus-uses-slot0", ["C02", "C03"], TI + ["SLOT-RESTRICTION"], "fire", (ACC, "            if restriction == \"-\":\n                qp = self.symbols.quadrature_permutation[1]", "            if restriction == \"-\":\n                qp = self.symbols.quadrature_permutation[0]"))
V("tidx-uniform-pred-first-point", ["C02"], TI, "fire", (ET, "        np.allclose(table[0, 0, :, :], table[0, i, :, :], rtol=rtol, atol=atol)", "        np.allclose(table[0, 0, 0, :], table[0, i, 0, :], rtol=rtol, atol=atol)"))
V("tidx-piecewise-pred-skips-last", ["C02"], TI, "fire", (ET, "        for i in range(1, table.shape[2])\n    )", "        for i in range(1, table.shape[2] - 1)\n    )"))
V("tidx-benign-ifexp", ["C02", "C04"], TI, "benign",
  (SYM, "        if tabledata.is_piecewise:\n            iq = 0\n        else:\n            iq = self.quadrature_loop_index\n", "        iq = 0 if tabledata.is_piecewise else self.quadrature_loop_index\n"))
V("tidx-reduce-wrong-axis", ["C02"], TI, "fire", (ET, "            tbl = tbl[:, :, :1, :]", "            tbl = tbl[:, :1, :, :]"))

ECP = ["EXPR-COEF-POS", "GEN-EXPRESSION-IR", "ANALYZE-OBJECTS"]
V("ecp-positions-of-processed", ["C04", "C05"], ECP, "fire", (REP, "    original_coefficients = ufl.algorithms.extract_coefficients(original_expr)", "    original_coefficients = ufl.algorithms.extract_coefficients(expr)"))
V("ecp-iterate-original", ["C04", "C05"], ECP, "fire", (REP, "    for coeff in coefficients:\n        original_coefficient_positions.append(original_coefficients.index(coeff))", "    for coeff in original_coefficients:\n        original_coefficient_positions.append(original_coefficients.index(coeff))"))
V("ecp-triple-swapped", ["C04"], ECP, "fire", (AN, "        processed_expressions += [(processed_expression, points, original_expression)]", "        processed_expressions += [(original_expression, points, processed_expression)]"))
V("ecp-benign-rename", ["C04"], ECP, "benign", (REP, "    original_coefficients = ufl.algorithms.extract_coefficients(original_expr)\n    for coeff in coefficients:\n        original_coefficient_positions.append(original_coefficients.index(coeff))",
  "    all_coeffs = ufl.algorithms.extract_coefficients(original_expr)\n    for coeff in coefficients:\n        original_coefficient_positions.append(all_coeffs.index(coeff))"))

FKA = ["FORM-KERNEL-ALIGN"]
V("fka-numba-ids-per-group", ["C18"], FKA, "fire", ("ffcx/codegeneration/numba/form.py", "            f\"{i}\" for i, domains in zip(integrals.ids, integrals.domains) for _ in domains", "            f\"{i}\" for i in integrals.ids"))
V("fka-c-ids-per-group", ["C06", "C18"], FKA, "fire", ("ffcx/codegeneration/C/form.py", "            f\"{i}\" for i, domains in zip(integrals.ids, integrals.domains) for _ in domains", "            f\"{i}\" for i, domains in zip(integrals.ids, integrals.domains)"))

CJ = ["CONJ-LAW", "FACT-LAWS"]
V("conj-literal-passthrough", ["C09", "C01"], CJ, "fire", (FAC, "            factors[k] = graph_insert(F, Conj(f0))", "            factors[k] = fac[k] if f0._ufl_is_literal_ else graph_insert(F, Conj(f0))"))
V("conj-dropped", ["C09", "C01"], CJ, "fire", (FAC, "            factors[k] = graph_insert(F, Conj(f0))", "            factors[k] = graph_insert(F, f0)"))
V("fact-conditional-two-loops", ["C01"], ["FACT-LAWS"], "fire",
  (FAC, "        mas = sorted(set(fac1.keys()) | set(fac2.keys()))\n        factors = {}\n        for k in mas:\n            fi1 = fac1.get(k)\n            fi2 = fac2.get(k)\n            f1 = z if fi1 is None else F.nodes[fi1][\"expression\"]\n            f2 = z if fi2 is None else F.nodes[fi2][\"expression\"]\n            factors[k] = graph_insert(F, conditional(f0, f1, f2))",
        "        factors = {}\n        for k in sorted(fac1):\n            f1 = F.nodes[fac1[k]][\"expression\"]\n            factors[k] = graph_insert(F, conditional(f0, f1, z))\n        for k in sorted(fac2):\n            f2 = F.nodes[fac2[k]][\"expression\"]\n            factors[k] = graph_insert(F, conditional(f0, z, f2))"))
V("fact-conditional-two-loops-merged", ["C01"], ["FACT-LAWS"], "benign",
  (FAC, "        mas = sorted(set(fac1.keys()) | set(fac2.keys()))\n        factors = {}\n        for k in mas:\n            fi1 = fac1.get(k)\n            fi2 = fac2.get(k)\n            f1 = z if fi1 is None else F.nodes[fi1][\"expression\"]\n            f2 = z if fi2 is None else F.nodes[fi2][\"expression\"]\n            factors[k] = graph_insert(F, conditional(f0, f1, f2))",
        "        factors = {}\n        for k in sorted(fac1):\n            f1 = F.nodes[fac1[k]][\"expression\"]\n            f2 = F.nodes[fac2[k]][\"expression\"] if k in fac2 else z\n            factors[k] = graph_insert(F, conditional(f0, f1, f2))\n        for k in sorted(fac2):\n            if k in fac1:\n                continue\n            f2 = F.nodes[fac2[k]][\"expression\"]\n            factors[k] = graph_insert(F, conditional(f0, z, f2))"))
V("fact-product-benign-swap", ["C01"], ["FACT-LAWS"], "benign", (FAC, "                factors[argkey] = graph_insert(F, f0 * f1)", "                factors[argkey] = graph_insert(F, f1 * f0)"))

QM = ["QMETA-FLOW", "QMETA-INTERP", "GEN-INTEGRAL-IR"]
V("qmeta-degree-loop-carried", ["C11", "C01"], QM, "fire",
  (AN, "        for i, integral in enumerate(integral_data.integrals):\n            metadata = integral.metadata()\n", "        qd = -1\n        for i, integral in enumerate(integral_data.integrals):\n            metadata = integral.metadata()\n"),
  (AN, "                qd = -1\n                if \"quadrature_degree\" in metadata.keys():\n                    qd = metadata[\"quadrature_degree\"]", "                qd = metadata.get(\"quadrature_degree\", qd)"))
V("qmeta-degree-falsy", ["C11", "C01"], QM, "fire", (AN, "                qd = -1\n                if \"quadrature_degree\" in metadata.keys():\n                    qd = metadata[\"quadrature_degree\"]", "                qd = metadata.get(\"quadrature_degree\") or -1"))
V("qmeta-degree-benign-get", ["C11", "C01"], QM, "benign", (AN, "                qd = -1\n                if \"quadrature_degree\" in metadata.keys():\n                    qd = metadata[\"quadrature_degree\"]", "                qd = metadata.get(\"quadrature_degree\", -1)"))
V("qmeta-guard-le-zero", ["C11", "C01"], QM, "fire", (AN, "                if qd < 0:\n                    qd = int(", "                if qd <= 0:\n                    qd = int("))

OG = ["OPT-GATE", "RULE-SCOPED-NAMES"]
V("optgate-diag-filter-removed", ["C10"], OG + ["GEN-IRBLOCKS"], "fire", (
  "ffcx/ir/integral.py", "        if (\n            TensorPart.from_str(p[\"part\"]) == TensorPart.diagonal\n            and len(blockmap) == 2\n            and blockmap[0] != blockmap[1]\n        ):", "        if False:"))
V("optgate-diag-filter-unguarded", ["C10"], OG + ["GEN-IRBLOCKS"], "fire", (
  "ffcx/ir/integral.py", "            TensorPart.from_str(p[\"part\"]) == TensorPart.diagonal\n            and len(blockmap) == 2\n            and blockmap[0] != blockmap[1]", "            TensorPart.from_str(p[\"part\"]) == TensorPart.diagonal\n            and blockmap[0] != blockmap[1]"))
V("optgate-tf-name-unscoped", ["C10", "C19"], OG, "fire", (ET, "                        name=f\"FE_TF{tensor_n}_Q{quadrature_rule.id()}\",", "                        name=f\"FE_TF{tensor_n}\","))
V("optgate-tf-reuse-by-shape", ["C10"], OG, "fire", (ET, "                    if tensor_factor.values.shape == sub_tbl.shape and np.allclose(\n                        tensor_factor.values, sub_tbl, rtol=rtol, atol=atol\n                    ):", "                    if tensor_factor.values.shape == sub_tbl.shape:"))
V("optgate-tf-reuse-equal-tables", ["C10"], OG, "benign", (ET, "                    if tensor_factor.values.shape == sub_tbl.shape and np.allclose(\n                        tensor_factor.values, sub_tbl, rtol=rtol, atol=atol\n                    ):", "                    if equal_tables(tensor_factor.values, sub_tbl, rtol=rtol, atol=atol):"))

V("permaxis-benign-local-alias", ["C03", "C08"], ["PERM-AXIS", "GEN-TABLES"], "benign",
  (ET, "                    if cell_type == \"tetrahedron\":\n                        new_table = []\n                        for rot in range(3):", "                    if cell_type == \"tetrahedron\":\n                        pq = permute_quadrature_triangle\n                        new_table = []\n                        for rot in range(3):"),
  (ET, "                                        permute_quadrature_triangle(\n                                            quadrature_rule.points, ref, rot\n                                        ),", "                                        pq(\n                                            quadrature_rule.points, ref, rot\n                                        ),"))
V("permaxis-alias-wrong-map", ["C03", "C08"], ["PERM-AXIS", "GEN-TABLES"], "fire",
  (ET, "                    if cell_type == \"tetrahedron\":\n                        new_table = []\n                        for rot in range(3):", "                    if cell_type == \"tetrahedron\":\n                        pq = permute_quadrature_quadrilateral\n                        new_table = []\n                        for rot in range(3):"),
  (ET, "                                        permute_quadrature_triangle(\n                                            quadrature_rule.points, ref, rot\n                                        ),", "                                        pq(\n                                            quadrature_rule.points, ref, rot\n                                        ),"))

# ---- GEN-BLOCKS: the block generator interpreted on sample IR ---------------------------------------------
GB = ["GEN-BLOCKS"]
V("gb-offset-dropped-blocked", ["C01", "C08"], GB, "fire", (IG, "                    A_indices.append(block_size * index.global_index + offset)", "                    A_indices.append(block_size * index.global_index)"))
V("gb-offset-dropped-unit", ["C01", "C02"], GB, "fire", (IG, "                    A_indices.append(index.global_index + offset)", "                    A_indices.append(index.global_index)"))
V("gb-weight-first-point", ["C01"], GB, "fire", (IG, "                weights = self.backend.symbols.weights_table(quadrature_rule)\n                weight = weights[iq.global_index]", "                weights = self.backend.symbols.weights_table(quadrature_rule)\n                weight = weights[0]"))
V("gb-fw-cache-key-without-factor", ["C01", "C11"], GB, "fire", (IG, "                key = (quadrature_rule, factor_index, blockdata.all_factors_piecewise)", "                key = (quadrature_rule, blockdata.all_factors_piecewise)"))
V("gb-assign-instead-of-add", ["C07", "C01"], GB, "fire", (IG, "                body.append(L.AssignAdd(A[multi_index], expression))", "                body.append(L.Assign(A[multi_index], expression))"))
V("gb-entity-minus-slot0", ["C02"], GB, "fire", (SYM, "            if restriction == \"-\":\n                return self.entity_local_index[1]\n            else:\n                return self.entity_local_index[0]", "            if restriction == \"-\":\n                return self.entity_local_index[0]\n            else:\n                return self.entity_local_index[0]"))
V("gb-entity-slot2", ["C08"], GB, "fire", (SYM, "        elif entity_type == \"vertex\":\n            return self.entity_local_index[0]", "        elif entity_type == \"vertex\":\n            return self.entity_local_index[2]"))
V("gb-diagonal-second-index", ["C10", "C01"], GB, "fire", (IG, "                B_indices = [B_indices[0], B_indices[0]]", "                B_indices = [B_indices[0], B_indices[1]]"))
V("gb-ones-factor-zero", ["C01"], GB, "fire", (IG, "            if td.ttype == \"ones\":\n                arg_factor = 1", "            if td.ttype == \"ones\":\n                arg_factor = 0"))
V("gb-multiindex-shape-transposed", ["C01", "C08"], GB, "fire", (IG, "            multi_index = L.MultiIndex(list(indices), A_shape)", "            multi_index = L.MultiIndex(list(indices), A_shape[::-1])"))
V("gb-loop-order-benign", ["C01"], GB, "benign", (IG, "        B_indices = B_indices[::-1]\n", ""))
V("gb-table-access-swapped-indices", ["C01", "C08"], GB, "fire", (ACC, "            return self.symbols.element_tables[tabledata.name][qp][entity][iq_global_index][\n                ic_global_index\n            ], symbols", "            return self.symbols.element_tables[tabledata.name][qp][entity][ic_global_index][\n                iq_global_index\n            ], symbols"))
V("gb-dof-range-plus-one", ["C08"], GB, "fire", ("ffcx/codegeneration/definitions.py", "        ranges = [tabledata.values.shape[-1]]", "        ranges = [tabledata.values.shape[-1] + 1]"))

# ---- GEN-DEFS ----------------------------------------------------------------------------------------
GD = ["GEN-DEFS"]
DEFP = "ffcx/codegeneration/definitions.py"
V("gd-coefficient-stride-dropped", ["C05"], GD, "fire", (DEFP, "            mt.terminal, (ic.global_index) * bs + begin", "            mt.terminal, (ic.global_index) + begin"))
V("gd-coefficient-offset-dropped", ["C05", "C08"], GD, "fire", (SYM, "        return w[offset + dof_index]", "        return w[dof_index]"))
V("gd-coords-minus-shift-gdim", ["C02", "C08"], GD, "fire", (DEFP, "            offset = num_scalar_dofs * dim", "            offset = num_scalar_dofs * 2"))
V("gd-coords-stride-2", ["C02", "C08"], GD, "fire", (DEFP, "        dim = 3\n        offset = 0", "        dim = 2\n        offset = 0"))
V("gd-coords-minus-shift-plus", ["C02"], GD, "fire", (DEFP, "        if mt.restriction == \"-\":\n            offset = num_scalar_dofs * dim", "        if mt.restriction == \"+\":\n            offset = num_scalar_dofs * dim"))
V("gd-benign-commute", ["C05"], GD, "benign", (DEFP, "        body = [L.AssignAdd(access, dof_access * FE)]", "        body = [L.AssignAdd(access, FE * dof_access)]"))
V("gd-assign-not-accumulate", ["C05"], GD, "fire", (DEFP, "        body = [L.AssignAdd(access, dof_access * FE)]", "        body = [L.Assign(access, dof_access * FE)]"))
V("gd-init-one", ["C05"], GD, "fire", (DEFP, "        declaration: list[L.Declaration] = [L.VariableDecl(access, 0.0)]", "        declaration: list[L.Declaration] = [L.VariableDecl(access, 1.0)]"))

# ---- GEN-EXPR ----------------------------------------------------------------------------------------
GE = ["GEN-EXPR"]
EGP = "ffcx/codegeneration/expression_generator.py"
V("ge-component-point-swapped", ["C04"], GE, "fire", (EGP, "                indices = [A_indices[0], fi_ci[1]] + list(A_indices[1:])", "                indices = [fi_ci[1], A_indices[0]] + list(A_indices[1:])"))
V("ge-shape-components-first", ["C04", "C08"], GE, "fire", (EGP, "        A_shape = [num_points, components] + self.ir.expression.tensor_shape", "        A_shape = [components, num_points] + self.ir.expression.tensor_shape"))
V("ge-offset-dropped", ["C04"], GE, "fire", (EGP, "                    A_indices.append(block_size * index + offset)", "                    A_indices.append(block_size * index)"))
V("ge-table-perm-only-restricted", ["C04"], GE + ["TABLE-INDEX"], "fire",
  (SYM, "        if tabledata.is_permuted:\n            qp = self.quadrature_permutation[0]\n            if restriction == \"-\":", "        if tabledata.is_permuted and restriction in (\"+\", \"-\"):\n            qp = self.quadrature_permutation[0]\n            if restriction == \"-\":"))
V("ge-assign-not-add", ["C04", "C07"], GE + ["ACCUMULATE-ONLY"], "fire", (EGP, "                body.append(L.AssignAdd(A[multi_index], Brhs))", "                body.append(L.Assign(A[multi_index], Brhs))"))
V("ge-loop-bound-plus-one", ["C08"], GE, "fire", (EGP, "                body = L.ForRange(B_indices[i + 1], 0, blockdims[i], body=body)", "                body = L.ForRange(B_indices[i + 1], 0, blockdims[i] + 1, body=body)"))
V("ge-benign-float-product-order", ["C04"], GE, "benign", (EGP, "                Brhs = L.float_product([f] + arg_factors)\n                indices = [A_indices[0], fi_ci[1]]", "                Brhs = L.float_product(arg_factors + [f])\n                indices = [A_indices[0], fi_ci[1]]"))

# ---- GEN-FORM ----------------------------------------------------------------------------------------
GF = ["GEN-FORM"]
COM = "ffcx/codegeneration/common.py"
V("gf-names-not-permuted", ["C06"], GF, "fire", (COM, "        names += [ir.integral_names[itg_type][i] for i in id_sort]", "        names += list(ir.integral_names[itg_type])"))
V("gf-offsets-count-groups", ["C06"], GF, "fire", (COM, "        offsets.append(offsets[-1] + sum(len(d) for d in ir.integral_domains[itg_type]))", "        offsets.append(offsets[-1] + len(ir.integral_domains[itg_type]))"))
V("gf-type-order", ["C06"], GF, "fire", (COM, "    for itg_type in (\"cell\", \"exterior_facet\", \"interior_facet\", \"vertex\", \"ridge\"):", "    for itg_type in (\"cell\", \"interior_facet\", \"exterior_facet\", \"vertex\", \"ridge\"):"))
V("gf-descending-ids", ["C06"], GF, "fire", (COM, "        id_sort = np.argsort(_ids)", "        id_sort = np.argsort(_ids)[::-1]"))
V("gf-numba-ids-per-group", ["C18"], GF, "fire", ("ffcx/codegeneration/numba/form.py", "            f\"{i}\" for i, domains in zip(integrals.ids, integrals.domains) for _ in domains", "            f\"{i}\" for i in integrals.ids"))
V("gf-c-hash-none-as-one", ["C06"], GF, "fire", ("ffcx/codegeneration/C/form.py", "            f\"UINT64_C({0 if el is None else el})\" for el in ir.finite_element_hashes", "            f\"UINT64_C({1 if el is None else el})\" for el in ir.finite_element_hashes"))
V("gf-benign-sorted-range", ["C06"], GF, "benign", (COM, "        id_sort = np.argsort(_ids)", "        id_sort = sorted(range(len(_ids)), key=lambda i: _ids[i])"))

# ---- benign refactors that break a shape-matched idiom: the covering interpretive rule decides (no exit 2) ------
V("refactor-licm-candidates-comprehension", ["C17"], ["LICM-SOUND", "PASS-EQUIV"], "benign",
  (OPTF, "            hoist_candidates = []\n            for arg in r.args:\n                dependency = check_dependency(arg, inner_loop.index)\n                if not dependency:\n                    hoist_candidates.append(arg)",
         "            hoist_candidates = [arg for arg in r.args if not check_dependency(arg, inner_loop.index)]"))
V("refactor-expr-shape-prefix-var", ["C04"], ["EXPR-LAYOUT", "GEN-EXPR"], "benign",
  (EGP, "        A_shape = [num_points, components] + self.ir.expression.tensor_shape", "        prefix = [num_points, components]\n        A_shape = prefix + list(self.ir.expression.tensor_shape)"))
V("refactor-integral-data-helper", ["C06"], ["IDX-SPACE", "PERM-CONSISTENT", "FORM-KERNEL-ALIGN", "GEN-FORM"], "benign",
  (COM, "        ids += [_ids[i] for i in id_sort]\n        names += [ir.integral_names[itg_type][i] for i in id_sort]\n        domains += [ir.integral_domains[itg_type][i] for i in id_sort]",
        "        for i in id_sort:\n            ids.append(_ids[i])\n            names.append(ir.integral_names[itg_type][i])\n            domains.append(ir.integral_domains[itg_type][i])"))
V("refactor-block-index-helper", ["C01", "C08"], ["BOUND-SAMESRC", "GEN-BLOCKS", "GEN-DEFS", "GEN-EXPR"], "benign",
  (IG, "                if len(blockmap[i]) == 1:\n                    A_indices.append(index.global_index + offset)\n                else:\n                    block_size = blockdata.ma_data[i].tabledata.block_size\n                    A_indices.append(block_size * index.global_index + offset)",
       "                stride = 1 if len(blockmap[i]) == 1 else tabledata.block_size\n                A_indices.append(stride * index.global_index + offset)"))

V("rflow-normal-unrestricted", ["C02"], ["RESTRICTION-FLOW"], "fire", (ACC, "            table = L.Symbol(f\"{cellname}_reference_normals\", dtype=L.DataType.REAL)\n            facet = self.symbols.entity(\"facet\", mt.restriction)", "            table = L.Symbol(f\"{cellname}_reference_normals\", dtype=L.DataType.REAL)\n            facet = self.symbols.entity(\"facet\", None)"))
V("rflow-benign-local", ["C02"], ["RESTRICTION-FLOW"], "benign", (ACC, "        expr = self.symbols.domain_dof_access(dof, component, gdim, num_scalar_dofs, mt.restriction)", "        expr = self.symbols.domain_dof_access(dof, component, gdim, num_scalar_dofs, restriction=mt.restriction)"))

# ---- rules added during round 4 -----------------------------------------------------------------------
DEFP2 = "ffcx/codegeneration/definitions.py"
EI = "ffcx/element_interface.py"
V("r4-kernel-once-list", ["C06"], ["KERNEL-ONCE"], "fire", (REP, "        i.expression.name: set(j[0] for j in i.expression.integrand.keys()) for a in irs for i in a", "        i.expression.name: [j[0] for j in i.expression.integrand.keys()] for a in irs for i in a"))
V("r4-kernel-once-benign-sorted", ["C06"], ["KERNEL-ONCE"], "benign", (REP, "        i.expression.name: set(j[0] for j in i.expression.integrand.keys()) for a in irs for i in a", "        i.expression.name: {j[0] for j in i.expression.integrand.keys()} for a in irs for i in a"))
V("r4-entity-tag-custom-cell", ["C06", "C11"], ["RULE-ENTITY-TAG"], "fire", (REP, "            rules[custom_cell_type] = (points, weights, None)", "            rules[cell_type] = (points, weights, None)"))
V("r4-prologue-zero-A", ["C07", "C18"], ["KERNEL-PROLOGUE"], "fire", ("ffcx/codegeneration/numba/integral.py", "    A = numba.carray(_A, ({sizes.A}))\n", "    A = numba.carray(_A, ({sizes.A}))\n    A[:] = 0\n"))
V("r4-prologue-benign-comment", ["C07", "C18"], ["KERNEL-PROLOGUE"], "benign", ("ffcx/codegeneration/numba/integral.py", "    A = numba.carray(_A, ({sizes.A}))\n", "    # views of the kernel arguments\n    A = numba.carray(_A, ({sizes.A}))\n"))
V("r4-mt-element-drop-derivative", ["C01", "C02"], ["MT-ELEMENT"], "fire", (ET, "        ld = tuple(sorted((d,) + ld))", "        ld = (d,)"))
V("r4-mt-element-benign-unsorted", ["C01"], ["MT-ELEMENT"], "benign", (ET, "        ld = tuple(sorted((d,) + ld))", "        ld = (d,) + tuple(ld)"))
V("r4-mt-element-x-component", ["C01", "C02"], ["MT-ELEMENT"], "fire", (ET, "        fc, d = mt.component  # x-component, derivative", "        d, fc = mt.component  # x-component, derivative"))
V("r4-quad-family-last-wins", ["C11", "C01"], ["QUAD-FAMILY"], "fire", (EI, "            polyset_type = basix.polyset_superset(celltype, polyset_type, e.polyset_type)", "            polyset_type = basix.polyset_superset(celltype, basix.PolysetType.standard, e.polyset_type)"))
V("r4-quad-family-degree-plus-one", ["C11", "C01"], ["QUAD-FAMILY"], "fire", (EI, "            celltype, degree, rule=basix.quadrature.string_to_type(rule), polyset_type=polyset_type", "            celltype, degree + 1, rule=basix.quadrature.string_to_type(rule), polyset_type=polyset_type"))
V("r4-dtype-conditional-true-branch", ["C09"], ["DTYPE-MERGE"], "fire", (IG, "    return L.merge_dtypes(dtypes)\n\n\nclass IntegralGenerator", "    if isinstance(v, ufl.classes.Conditional):\n        return dtypes[1]\n    return L.merge_dtypes(dtypes)\n\n\nclass IntegralGenerator"))
V("r4-dtype-benign-skip-condition", ["C09"], ["DTYPE-MERGE"], "benign", (IG, "    return L.merge_dtypes(dtypes)\n\n\nclass IntegralGenerator", "    if isinstance(v, ufl.classes.Conditional):\n        return L.merge_dtypes(dtypes[1:])\n    return L.merge_dtypes(dtypes)\n\n\nclass IntegralGenerator"))
V("r4-math-first-arg-only", ["C09"], ["MATH-ARGTYPE"], "fire", (CF, "            if not any(getattr(arg, \"dtype\", None) == L.DataType.SCALAR for arg in c.args):", "            if c.args[0].dtype == L.DataType.REAL:"))
V("r4-geom-entity-facet-dropped", ["C02", "C04"], ["GEOM-ACCESS"], "fire", (ACC, "            return table[facet * num_facet_edges + mt.component[0]][mt.component[1]]", "            return table[mt.component[0]][mt.component[1]]"))
V("r4-geom-entity-unscaled", ["C02", "C04"], ["GEOM-ACCESS"], "fire", (ACC, "            return table[facet * num_facet_edges + mt.component[0]][mt.component[1]]", "            return table[facet + mt.component[0]][mt.component[1]]"))
V("r4-geom-maps-expression-name", ["C04", "C19"], ["GEOM-TABLE-MAPS"], "fire", ("ffcx/codegeneration/expression_generator.py", "            ufl.geometry.FacetEdgeVectors: \"facet_edge_vertices\",", "            ufl.geometry.FacetEdgeVectors: \"facet_edge_vectors\","))
V("r4-geom-maps-orientation-missing", ["C04", "C19"], ["GEOM-TABLE-MAPS"], "fire", ("ffcx/codegeneration/expression_generator.py", "            ufl.geometry.FacetOrientation: \"facet_orientation\",\n", ""))
V("r4-dispatch-jacobian-pass-through", ["C01", "C02", "C03"], ["TERMINAL-DISPATCH"], "fire", (DEFP2, "            ufl.geometry.Jacobian: self._define_coordinate_dofs_lincomb,", "            ufl.geometry.Jacobian: self.pass_through,"))
V("r4-dispatch-benign-jacobian-wrapper", ["C01", "C03"], ["TERMINAL-DISPATCH", "GEN-DEFS"], "benign", (DEFP2, "            ufl.geometry.Jacobian: self._define_coordinate_dofs_lincomb,", "            ufl.geometry.Jacobian: self.jacobian,"))
V("r4-dispatch-normal-to-jacobian", ["C02", "C03"], ["TERMINAL-DISPATCH"], "fire", (ACC, "            ufl.geometry.ReferenceNormal: self.reference_normal,", "            ufl.geometry.ReferenceNormal: self.cell_facet_jacobian,"))
V("r4-tabledata-unpermuted", ["C03"], ["TERMINAL-DISPATCH", "GEN-DEFS"], "fire", (DEFP2, "        \"\"\"Return definition code for the Jacobian of x(X).\"\"\"\n        return self._define_coordinate_dofs_lincomb", "        \"\"\"Return definition code for the Jacobian of x(X).\"\"\"\n        tabledata = tabledata._replace(is_permuted=False)\n        return self._define_coordinate_dofs_lincomb"))
V("r4-wait-ten-times-shorter", ["C14"], ["LOCK-PROTO"], "fire", (JIT, "            time.sleep(1)", "            time.sleep(0.1)"))
V("r4-wait-benign-finer-polling", ["C14"], ["LOCK-PROTO"], "benign", (JIT, "        for i in range(timeout):", "        for i in range(timeout * 10):"), (JIT, "            time.sleep(1)", "            time.sleep(0.1)"))
V("r4-restriction-none-cfj", ["C02", "C03"], ["RESTRICTION-FLOW"], "fire", (ACC, "            table = L.Symbol(f\"{cellname}_cell_facet_jacobian\", dtype=L.DataType.REAL)\n            facet = self.symbols.entity(\"facet\", mt.restriction)", "            table = L.Symbol(f\"{cellname}_cell_facet_jacobian\", dtype=L.DataType.REAL)\n            facet = self.symbols.entity(\"facet\", None)"))

V("sig-benign-local-for-args", ["C13"], ["SIG-COMPLETE"], "benign",
  (JIT, "    if sys.platform.startswith(\"win32\"):\n        # NOTE: SOABI not defined", "    compile_args = str(cffi_extra_compile_args)\n    if sys.platform.startswith(\"win32\"):\n        # NOTE: SOABI not defined"),
  (JIT, "            str(cffi_extra_compile_args)\n            + str(cffi_debug)\n            + str(list(cffi_libraries))\n            + str(sysconfig.get_config_var(\"CFLAGS\"))", "            compile_args\n            + str(cffi_debug)\n            + str(list(cffi_libraries))\n            + str(sysconfig.get_config_var(\"CFLAGS\"))"))
V("sig-args-sorted-set", ["C13"], ["SIG-COMPLETE"], "fire",
  (JIT, "    if sys.platform.startswith(\"win32\"):\n        # NOTE: SOABI not defined", "    compile_args = str(sorted(set(cffi_extra_compile_args)))\n    if sys.platform.startswith(\"win32\"):\n        # NOTE: SOABI not defined"),
  (JIT, "            str(cffi_extra_compile_args)\n            + str(cffi_debug)\n            + str(list(cffi_libraries))\n            + str(sysconfig.get_config_var(\"CFLAGS\"))", "            compile_args\n            + str(cffi_debug)\n            + str(list(cffi_libraries))\n            + str(sysconfig.get_config_var(\"CFLAGS\"))"))

# ---- RECON-LAWS ----------------------------------------------------------------------------------------
RL = ["RECON-LAWS"]
RC = "ffcx/ir/analysis/reconstruct.py"
V("recon-product-maps-swapped", ["C01", "C04"], RL, "fire", (RC, "            ufl.utils.indexflattening.flatten_multiindex([ind[i] for i in indmap0], ist0),\n            ufl.utils.indexflattening.flatten_multiindex([ind[i] for i in indmap1], ist1),", "            ufl.utils.indexflattening.flatten_multiindex([ind[i] for i in indmap1], ist0),\n            ufl.utils.indexflattening.flatten_multiindex([ind[i] for i in indmap0], ist1),"))
V("recon-indexsum-fastest-axis", ["C01", "C04"], RL, "fire", (RC, "            sops.append([ss[ind + j * postdim] for j in range(d)])", "            sops.append([ss[ind * d + j] for j in range(d)])"))
V("recon-indexsum-one-term-short", ["C01", "C04"], RL, "fire", (RC, "            sops.append([ss[ind + j * postdim] for j in range(d)])", "            sops.append([ss[ind + j * postdim] for j in range(d - 1)])"))
V("recon-division-inverted", ["C01"], RL, "fire", (RC, "    return [o._ufl_expr_reconstruct_(a, b) for a in ops[0]]", "    return [o._ufl_expr_reconstruct_(b, a) for a in ops[0]]"))
V("recon-conditional-branches-swapped", ["C01"], RL, "fire", (RC, "        sops = (ops[0][0], ops[1][i], ops[2][i])", "        sops = (ops[0][0], ops[2][i], ops[1][i])"))
V("recon-sum-benign-index-loop", ["C01"], RL, "benign", (RC, "    return [o._ufl_expr_reconstruct_(a, b) for a, b in zip(ops[0], ops[1])]", "    return [o._ufl_expr_reconstruct_(ops[0][k], ops[1][k]) for k in range(len(ops[0]))]"))
V("recon-dispatch-sum-to-product", ["C01"], RL, "fire", (RC, "    ufl.classes.Sum: handle_sum,", "    ufl.classes.Sum: handle_product,"))

# ---- INDEX-MAPS ------------------------------------------------------------------------------------------
IX = "ffcx/ir/analysis/indexing.py"
V("ixmap-indexed-wrong-position", ["C01", "C04"], ["INDEX-MAPS"], "fire", (IX, "                p2[k] = p1[multiindex_to_ind1_map[k]]", "                p2[k] = p1[k]"))
V("ixmap-indexed-free-offset", ["C01", "C04"], ["INDEX-MAPS"], "fire", (IX, "            p2[nmui + k] = p1[i]", "            p2[nmui + k] = p1[k]"))
V("ixmap-ct-identity", ["C01", "C04"], ["INDEX-MAPS"], "fire", (IX, "        p2_to_p1_map[k] = fi1.index(mi[k].count())", "        p2_to_p1_map[k] = k"))
V("ixmap-benign-rename", ["C01"], ["INDEX-MAPS"], "benign", (IX, "    for c1, p1 in enumerate(perm1):\n        for k, i in enumerate(multiindex):\n            if isinstance(i, Index):\n                p2[k] = p1[multiindex_to_ind1_map[k]]", "    for c1, point in enumerate(perm1):\n        p1 = point\n        for k, i in enumerate(multiindex):\n            if isinstance(i, Index):\n                p2[k] = p1[multiindex_to_ind1_map[k]]"))

V("sig-libraries-dropped", ["C13"], ["SIG-COMPLETE"], "fire", (JIT, "            + str(list(cffi_libraries))\n            + str(sysconfig.get_config_var(\"CFLAGS\"))", "            + str(sysconfig.get_config_var(\"CFLAGS\"))"))

# ---- create_quadrature_points_and_weights interpreted (QUAD-MATRIX) ------------------
OG = ["QUAD-MATRIX"]
V("qm-quad-three-factors", ["C10"], OG, "fire", (RU, "                    create_quadrature(\"interval\", degree, rule, elements) for _ in range(2)", "                    create_quadrature(\"interval\", degree, rule, elements) for _ in range(3)"))
V("qm-weights-from-points", ["C10"], OG, "fire", (RU, "[np.prod(p) for p in itertools.product(*[f[1] for f in tensor_factors[cell_name]])]", "[np.prod(p) for p in itertools.product(*[f[1] for f in tensor_factors[cell_name][:1]])]"))
V("qm-factor-degree", ["C10"], OG, "fire", (RU, "                    create_quadrature(\"interval\", degree, rule, elements) for _ in range(3)", "                    create_quadrature(\"interval\", degree + 1, rule, elements) for _ in range(3)"))
V("qm-gate-ignores-option", ["C10"], OG, "fire", (RU, "        if cell_name in [\"quadrilateral\", \"hexahedron\"] and use_tensor_product:", "        if cell_name in [\"quadrilateral\", \"hexahedron\"]:"))
V("qm-refactor-factors-local", ["C10"], OG, "benign", (RU, "            pts[cell_name] = np.array(\n                [\n                    tuple(i[0] for i in p)\n                    for p in itertools.product(*[f[0] for f in tensor_factors[cell_name]])\n                ]\n            )", "            factors = tensor_factors[cell_name]\n            pts[cell_name] = np.array([tuple(i[0] for i in p) for p in itertools.product(*[f[0] for f in factors])])"))

# ---- GEN-INTEGRAL ------------------------------------------------------------------------------------
CI = "ffcx/codegeneration/C/integral.py"
NI = "ffcx/codegeneration/numba/integral.py"
GI = ["GEN-INTEGRAL", "DESC-FIELDS"]
V("gi-slot-always-float64", ["C06", "C18"], GI, "fire", (CI, "    code[f\"tabulate_tensor_{np_scalar_type}\"] = (\n        f\".tabulate_tensor_{np_scalar_type} = tabulate_tensor_{factory_name},\"\n    )", "    code[\"tabulate_tensor_float64\"] = (\n        f\".tabulate_tensor_float64 = tabulate_tensor_{factory_name},\"\n    )"))
V("gi-slot-real-type", ["C06", "C18"], GI, "fire", (CI, "    np_scalar_type = np.dtype(options[\"scalar_type\"]).name  # type: ignore", "    np_scalar_type = dtype_to_scalar_dtype(options[\"scalar_type\"]).name  # type: ignore"))
V("gi-geom-type-scalar", ["C05", "C18"], GI, "fire", (CI, "        geom_type=dtype_to_c_type(dtype_to_scalar_dtype(options[\"scalar_type\"])),  # type: ignore", "        geom_type=dtype_to_c_type(options[\"scalar_type\"]),  # type: ignore"))
V("gi-enabled-inverted", ["C05", "C06"], GI, "fire", (CI, "        values = \", \".join(\"1\" if i else \"0\" for i in ir.enabled_coefficients)", "        values = \", \".join(\"0\" if i else \"1\" for i in ir.enabled_coefficients)"))
V("gi-object-name-without-cell", ["C06"], GI, "fire", (CI, "    factory_name = f\"{ir.expression.name}_{domain.name}\"", "    factory_name = f\"{ir.expression.name}\""))
V("gi-numba-perm-flag-constant", ["C18"], GI, "fire", (NI, "    d[\"needs_facet_permutations\"] = \"True\" if ir.expression.needs_facet_permutations else \"False\"", "    d[\"needs_facet_permutations\"] = \"False\""))
V("gi-numba-enabled-dropped", ["C18"], GI, "fire", (NI, "    vals = \", \".join(\"1\" if i else \"0\" for i in ir.enabled_coefficients)", "    vals = \", \".join(\"1\" for i in ir.enabled_coefficients)"))
V("gi-refactor-local-scalar", ["C06", "C05", "C18"], GI, "benign", (CI, "    np_scalar_type = np.dtype(options[\"scalar_type\"]).name  # type: ignore", "    scalar_type = options[\"scalar_type\"]\n    np_scalar_type = np.dtype(scalar_type).name  # type: ignore"))
V("gi-refactor-array-name", ["C06", "C05"], GI, "benign", (CI, "        code[\"enabled_coefficients\"] = f\"enabled_coefficients_{ir.expression.name}_{domain.name}\"", "        code[\"enabled_coefficients\"] = f\"enabled_coefficients_{factory_name}\""),
  (CI, "            f\"bool enabled_coefficients_{ir.expression.name}_{domain.name}[{sizes}] = {{{values}}};\"", "            f\"bool enabled_coefficients_{factory_name}[{sizes}] = {{{values}}};\""))

# ---- SUFFIX-ARITY: format_code / write_code interpreted ---------------------------------------------
FG = "ffcx/formatting.py"
SA_ = ["SUFFIX-ARITY"]
V("fc-first-component-everywhere", ["C20", "C18"], SA_, "fire", (FG, '            code[i] += "".join([c[i] for c in block])', '            code[i] += "".join([c[0] for c in block])'))
V("fc-skip-last-block", ["C20", "C18"], SA_, "fire", (FG, "    for block in code_blocks:\n", "    for block in code_blocks[:-1]:\n"))
V("fc-reversed-entries", ["C20", "C18"], SA_, "fire", (FG, '            code[i] += "".join([c[i] for c in block])', '            code[i] += "".join([c[i] for c in reversed(block)])'))
V("wc-nonstrict-zip", ["C20"], SA_, "fire", (FG, "zip(code, suffixes, strict=True)", "zip(code, suffixes)"))
V("wc-suffix-only", ["C20"], SA_, "fire", (FG, "Path(output_dir) / (prefix + suffix)", "Path(output_dir) / (\"out\" + suffix)"))
V("wc-append-mode", ["C20"], SA_, "benign", (FG, "    for source, suffix in zip(code, suffixes, strict=True):\n        with open(Path(output_dir) / (prefix + suffix), \"w\") as file:\n            file.write(source)",
  "    for source, suffix in zip(code, suffixes, strict=True):\n        path = Path(output_dir) / (prefix + suffix)\n        with open(path, \"w\") as file:\n            file.write(source)"))
V("fc-refactor-per-file", ["C20", "C18"], SA_, "benign", (FG, '    code = [""] * len(code_blocks[0][0])\n\n    for block in code_blocks:\n        for i in range(len(code)):\n            code[i] += "".join([c[i] for c in block])\n',
  '    num_files = len(code_blocks[0][0])\n    code: list[str] = []\n    for i in range(num_files):\n        pieces = [c[i] for block in code_blocks for c in block]\n        code.append("".join(pieces))\n'))

# ---- FAIL-RELEASE: release through a helper (wrapper recognition) -----------------------------------
_TRY_F = "        try:\n            # remove c file so that it will not timeout next time\n            c_filename = cache_dir.joinpath(module_name + \".c\")\n            os.replace(c_filename, c_filename.with_suffix(\".c.failed\"))\n        except Exception:\n            pass\n        raise e\n\n    obj, module = _load_objects(cache_dir, module_name, form_names)"
_TRY_E = _TRY_F.replace("form_names", "expr_names")
_CALL_F = "        _mark_failed(cache_dir, module_name)\n        raise e\n\n    obj, module = _load_objects(cache_dir, module_name, form_names)"
_CALL_E = _CALL_F.replace("form_names", "expr_names")
_HELPER = "def _mark_failed(cache_dir, name):\n    try:\n        c_filename = cache_dir.joinpath(name + \".c\")\n        os.replace(c_filename, c_filename.with_suffix(\".c.failed\"))\n    except Exception:\n        pass\n\n\ndef compile_forms(\n"
V("jit-release-wrapper", ["C15"], J, "benign", (JIT, "def compile_forms(\n", _HELPER), (JIT, _TRY_F, _CALL_F), (JIT, _TRY_E, _CALL_E))
V("jit-release-wrapper-conditional", ["C15"], J, "fire", (JIT, "def compile_forms(\n", _HELPER.replace("    try:\n", "    if not cache_dir.exists():\n        return\n    try:\n")), (JIT, _TRY_F, _CALL_F), (JIT, _TRY_E, _CALL_E))
V("jit-release-wrapper-wrong-suffix", ["C15"], J, "fire", (JIT, "def compile_forms(\n", _HELPER.replace(".c.failed", ".c.cached")), (JIT, _TRY_F, _CALL_F), (JIT, _TRY_E, _CALL_E))
V("jit-release-wrapper-wrong-binding", ["C15"], J, "fire", (JIT, "def compile_forms(\n", _HELPER), (JIT, _TRY_F, _CALL_F.replace("_mark_failed(cache_dir, module_name)", "_mark_failed(cache_dir, \"libffcx\")")), (JIT, _TRY_E, _CALL_E))

# ---- GEN-PARTITION -----------------------------------------------------------------------------------
GP = ["GEN-PARTITION", "SCOPE-KEY"]
V("gp-set-var-rule-only-key", ["C11", "C01"], GP, "fire", (IG, "        self.scopes[(domain, quadrature_rule)][v] = vaccess", "        self.scopes[(None, None)][v] = vaccess"))
V("gp-get-var-piecewise-first", ["C11", "C01"], GP, "fire", (IG, "        f = self.scopes[(domain, quadrature_rule)].get(v)\n\n        # piecewise scope\n        if f is None:\n            f = self.scopes[(None, None)].get(v)\n        return f",
  "        f = self.scopes[(None, None)].get(v)\n        if f is None:\n            f = self.scopes[(domain, quadrature_rule)].get(v)\n        return f"))
V("gp-no-fallback", ["C11", "C01"], GP, "fire", (IG, "        if f is None:\n            f = self.scopes[(None, None)].get(v)\n        return f", "        return f"))
V("gp-mode-filter-dropped", ["C11", "C01"], GP, "fire", (IG, "            if attr[\"status\"] != mode:\n                continue\n            v = attr[\"expression\"]\n\n            # Generate code only", "            v = attr[\"expression\"]\n\n            # Generate code only"))
# benign: partitions and blocks of one rule are generated back to back, so the latest value in the shared scope is always this rule's own
V("gp-store-under-none", ["C11", "C01"], GP, "benign", (IG, "                self.set_var(quadrature_rule, domain, v, vaccess)", "                self.set_var(None, None, v, vaccess)"))
V("gp-refactor-scope-helper", ["C11", "C01"], GP, "benign",
  (IG, "    def set_var(self, quadrature_rule, domain, v, vaccess):", "    def _scope(self, quadrature_rule, domain):\n        return self.scopes[(domain, quadrature_rule)]\n\n    def set_var(self, quadrature_rule, domain, v, vaccess):"),
  (IG, "        self.scopes[(domain, quadrature_rule)][v] = vaccess", "        self._scope(quadrature_rule, domain)[v] = vaccess"),
  (IG, "            if not v._ufl_is_literal_ and self.scopes[(domain, quadrature_rule)].get(v) is None:", "            if not v._ufl_is_literal_ and self._scope(quadrature_rule, domain).get(v) is None:"))

# ---- formatter helpers inlined by fmt_eval -----------------------------------------------------------
_PH = "def _paren_if(text, condition):\n    return f\"({text})\" if condition else text\n\n\nclass Formatter(FormatterInterface):\n    \"\"\"C formatter.\"\"\"\n"
_BIN_OLD = "        if oper.lhs.precedence >= oper.precedence:\n            lhs = f\"({lhs})\"\n        if oper.rhs.precedence >= oper.precedence:\n            rhs = f\"({rhs})\""
V("fmt-c-helper-paren", ["C16"], F, "benign", (CF, "class Formatter(FormatterInterface):\n    \"\"\"C formatter.\"\"\"\n", _PH),
  (CF, _BIN_OLD, "        lhs = _paren_if(lhs, oper.lhs.precedence >= oper.precedence)\n        rhs = _paren_if(rhs, oper.rhs.precedence >= oper.precedence)"))
V("fmt-c-helper-paren-strict", ["C16"], F, "fire", (CF, "class Formatter(FormatterInterface):\n    \"\"\"C formatter.\"\"\"\n", _PH),
  (CF, _BIN_OLD, "        lhs = _paren_if(lhs, oper.lhs.precedence >= oper.precedence)\n        rhs = _paren_if(rhs, oper.rhs.precedence > oper.precedence)"))
V("fmt-c-helper-paren-inverted", ["C16"], F, "fire", (CF, "class Formatter(FormatterInterface):\n    \"\"\"C formatter.\"\"\"\n", _PH.replace("if condition else text", "if not condition else text")),
  (CF, _BIN_OLD, "        lhs = _paren_if(lhs, oper.lhs.precedence >= oper.precedence)\n        rhs = _paren_if(rhs, oper.rhs.precedence >= oper.precedence)"))

# ---- GEN-TABLES --------------------------------------------------------------------------------------
ETB = "ffcx/ir/elementtables.py"
GT = ["GEN-TABLES", "PERM-AXIS", "TABLE-INDEX", "MACRO-DOUBLING"]
V("gt-tet-loops-swapped", ["C03", "C08"], GT, "fire", (ETB, "                        for rot in range(3):\n                            for ref in range(2):", "                        for ref in range(2):\n                            for rot in range(3):"))
V("gt-tet-two-rotations", ["C03", "C08"], GT, "fire", (ETB, "                        for rot in range(3):\n", "                        for rot in range(2):\n"))
V("gt-hex-args-swapped", ["C03", "C08"], GT, "fire", (ETB, "                                        permute_quadrature_quadrilateral(\n                                            quadrature_rule.points, ref, rot\n                                        ),", "                                        permute_quadrature_quadrilateral(\n                                            quadrature_rule.points, rot, ref\n                                        ),"))
V("gt-shift-any-terminal", ["C02", "C08"], GT, "fire", (ETB, "        if mt.restriction == \"-\" and isinstance(mt.terminal, ufl.classes.FormArgument):", "        if mt.restriction == \"-\":"))
V("gt-shift-plus", ["C02", "C08"], GT, "fire", (ETB, "        if mt.restriction == \"-\" and isinstance(mt.terminal, ufl.classes.FormArgument):", "        if mt.restriction == \"+\" and isinstance(mt.terminal, ufl.classes.FormArgument):"))
V("gt-reduce-axes-mixed-up", ["C03", "C02", "C08"], GT, "fire", (ETB, "            tbl = tbl[:, :, :1, :]\n", "            tbl = tbl[:, :1, :, :]\n"), (ETB, "            tbl = tbl[:, :1, :, :]\n        is_permuted", "            tbl = tbl[:, :, :1, :]\n        is_permuted"))
V("gt-perm-axis-always-dropped", ["C03", "C08"], GT, "fire", (ETB, "        if not is_permuted:\n            # Reduce table along num_perms axis\n            tbl = tbl[:1, :, :, :]", "        tbl = tbl[:1, :, :, :]"))
V("gt-exterior-facets-permuted", ["C03", "C08"], GT, "benign", (ETB, "            integral_type == \"interior_facet\"\n            or integral_type == \"ridge\"", "            integral_type in (\"interior_facet\",)\n            or integral_type == \"ridge\""))
V("gt-offset-without-component", ["C02", "C08"], GT, "fire", (ETB, "        offset = cell_offset + t[\"offset\"]", "        offset = cell_offset"))
V("gt-refactor-stack-helper", ["C03", "C08"], GT, "benign", (ETB, "                    t = new_table[0]\n                    t[\"array\"] = np.vstack([td[\"array\"] for td in new_table])\n                elif tdim == 3:", "                    t = dict(new_table[0])\n                    stacked = np.vstack([td[\"array\"] for td in new_table])\n                    t[\"array\"] = stacked\n                elif tdim == 3:"))

# ---- MT-ANALYSE / GEN-IRBLOCKS / PREFIX-OFFSETS with disabled coefficients ------------------------------
MTF = "ffcx/ir/analysis/modified_terminals.py"
IRI = "ffcx/ir/integral.py"
V("mta-derivatives-unsorted", ["C05", "C01"], ["MT-ANALYSE"], "fire", (MTF, "    local_derivatives = tuple(sorted(local_derivatives))", "    local_derivatives = tuple(local_derivatives)"))
V("mta-restriction-lost", ["C01", "C05"], ["MT-ANALYSE"], "fire", (MTF, "            restriction = t._side\n", "            restriction = None if t._side == \"+\" else t._side\n"))
V("mta-symmetry-ignored", ["C05", "C01"], ["MT-ANALYSE"], "fire", (MTF, "            base_symmetry = element.symmetry()", "            base_symmetry = {}"))
V("mta-component-reversed", ["C05", "C01"], ["MT-ANALYSE"], "fire", (MTF, "        component = tuple(component)\n", "        component = tuple(reversed(component))\n"))
V("mta-refactor-early", ["C05", "C01"], ["MT-ANALYSE"], "benign", (MTF, "    if component is None:\n        component = ()\n    else:\n        component = tuple(component)", "    component = () if component is None else tuple(component)"))
V("irb-argkeys-first-use-order", ["C02", "C01"], ["GEN-IRBLOCKS"], "fire", (IRI, "    _argkeys: set[int] = set()\n    for w in argument_factorization:\n        _argkeys = _argkeys | set(w)\n    argkeys = list(_argkeys)", "    argkeys = list(dict.fromkeys(ai for w in argument_factorization for ai in w))"))
V("irb-argkeys-sorted", ["C02", "C01"], ["GEN-IRBLOCKS"], "benign", (IRI, "    argkeys = list(_argkeys)", "    argkeys = sorted(_argkeys)"))
V("irb-restrictions-of-uniform", ["C02", "C08"], ["GEN-IRBLOCKS"], "fire", (IRI, "            if not trs[i].is_uniform:\n                r = F.nodes[ai][\"mt\"].restriction", "            if trs[i].is_uniform:\n                r = F.nodes[ai][\"mt\"].restriction"))
V("irb-dofmap-without-stride", ["C02", "C01", "C08"], ["GEN-IRBLOCKS"], "fire", (IRI, "            dofmap = tuple(begin + i * tr.block_size for i in range(num_dofs))", "            dofmap = tuple(begin + i for i in range(num_dofs))"))
V("irb-piecewise-any", ["C01", "C08"], ["GEN-IRBLOCKS"], "fire", (IRI, "        all_factors_piecewise = all(F.nodes[ifi[0]][\"status\"] == \"piecewise\" for ifi in fi_ci)", "        all_factors_piecewise = any(F.nodes[ifi[0]][\"status\"] == \"piecewise\" for ifi in fi_ci)"))
V("irb-diagonal-keeps-all", ["C10"], ["GEN-IRBLOCKS", "OPT-GATE"], "fire", (IRI, "            and blockmap[0] != blockmap[1]\n", "            and blockmap[0] is None\n"))
V("irb-ones-tables-emitted", ["C08", "C02"], ["GEN-IRBLOCKS"], "benign", (IRI, "    for name in sorted(active_table_names):\n", "    for name in sorted(set(active_table_names)):\n"))
V("po-skip-disabled", ["C05", "C01"], ["PREFIX-OFFSETS"], "fire", (REP, "            _offset += width * element_dimensions[el]\n", "            if itg_data.enabled_coefficients[i]:\n                _offset += width * element_dimensions[el]\n"))

# ---- entity point maps and the tabulation driver ----------------------------------------------------
EIF = "ffcx/element_interface.py"
RUF = "ffcx/ir/representationutils.py"
ETF = "ffcx/ir/elementtables.py"
PM = ["ENTITY-POINT-MAPS", "GEN-TABVALUES"]
V("pm-facet-zip-includes-v0", ["C02"], PM, "fire",
  (EIF, "            facet_vertices[0]\n            + sum((i - facet_vertices[0]) * j for i, j in zip(facet_vertices[1:], p))",
        "            facet_vertices[0]\n            + sum((i - facet_vertices[0]) * j for i, j in zip(facet_vertices[:0:-1], p))"))
V("pm-edge-wrong-topology-level", ["C02"], PM, "fire",
  (EIF, "edge_vertices = [geom[i] for i in basix.topology(_CellType[cellname])[-3][edge]]", "edge_vertices = [geom[i] for i in basix.topology(_CellType[cellname])[1][edge]]"))
V("pm-edge-reversed", ["C02"], PM, "fire",
  (EIF, "edge_vertices[0] + sum((i - edge_vertices[0]) * j for i, j in zip(edge_vertices[1:], p))", "edge_vertices[1] + sum((i - edge_vertices[1]) * j for i, j in zip(edge_vertices[:1], p))"))
V("pm-vertex-uses-first", ["C02"], PM, "fire",
  (RUF, "return np.asarray([reference_cell_vertices(cell.cellname)[entity]])", "return np.asarray([reference_cell_vertices(cell.cellname)[0]])"))
V("pm-ridge-dim", ["C02"], PM, "fire",
  (RUF, "    elif integral_type in ufl.measure.ridge_integral_types:\n        entity_dim = tdim - 2", "    elif integral_type in ufl.measure.ridge_integral_types:\n        entity_dim = max(tdim - 2, 1)"))
V("pm-benign-comprehension", ["C02"], PM, "benign",
  (EIF, "    facet_vertices = [geom[i] for i in basix.topology(_CellType[cellname])[-2][facet]]", "    topo = basix.topology(_CellType[cellname])\n    facet_vertices = [geom[v] for v in topo[len(topo) - 2][facet]]"))
V("tv-entity-points-unmapped", ["C02"], PM, "fire",
  (ETF, "            entity_points = map_integral_points(points, integral_type, cell, entity)", "            entity_points = map_integral_points(points, integral_type, cell, 0)"))
V("tv-derivative-index", ["C01", "C02"], PM, "fire",
  (ETF, "        tbl = tbl[basix_index(derivative_counts)]", "        tbl = tbl[basix_index(tuple(reversed(derivative_counts)))]"))
V("tv-last-entity-everywhere", ["C02"], PM, "fire",
  (ETF, "        res[:, entity, :, :] = component_tables[entity]", "        res[:, entity, :, :] = component_tables[-1]"))
V("tv-codim1-mapped", ["C02"], PM, "fire",
  (ETF, "        if codim == 0:\n            entity_points = map_integral_points", "        if codim == 0 or codim == 1:\n            entity_points = map_integral_points"))
V("tv-expression-facet-as-cell", ["C04"], PM, "fire",
  (ETF, "        if entity_type == \"cell\":\n            integral_type = \"cell\"\n        else:\n            integral_type = \"exterior_facet\"", "        integral_type = \"cell\""))
V("tv-benign-enumerate", ["C02"], PM, "benign",
  (ETF, "    for entity in range(num_entities):\n        res[:, entity, :, :] = component_tables[entity]", "    for entity, ctab in enumerate(component_tables):\n        res[:, entity, :, :] = ctab"))

# ---- argument factorisation driver ---------------------------------------------------------------------
FAF = "ffcx/ir/analysis/factorization.py"
MTF = "ffcx/ir/analysis/modified_terminals.py"
FD = ["FACT-DRIVER"]
V("fd-argkey-unsorted", ["C01"], FD, "fire",
  (FAF, "ai_fi = {tuple(sorted(arg_indices.index(si) for si in argkey)): fi}", "ai_fi = {tuple(arg_indices.index(si) for si in reversed(argkey)): fi}"))
V("fd-ordering-key-number-last", ["C01"], FD, "fire",
  (MTF, "        return (n, p, rv, fc, gd, ld, a, r)", "        return (fc, gd, ld, a, r, rv, p, n)"))
V("fd-arguments-unsorted", ["C01"], FD, "fire",
  (FAF, "    ordered_arg_indices = sorted(arg_indices, key=arg_ordering_key)", "    ordered_arg_indices = list(arg_indices)"))
V("fd-component-not-recorded", ["C01", "C04"], FD, "fire",
  (FAF, "                    if factors.get(comp):\n                        factors[comp].update(ai_fi)\n                    else:\n                        factors[comp] = ai_fi",
        "                    factors[comp] = ai_fi"))
V("fd-shared-dict-between-components", ["C04"], FD, "benign",
  (FAF, "                    else:\n                        factors[comp] = ai_fi", "                    else:\n                        factors[comp] = dict(ai_fi)"))
V("fd-division-registered-as-product", ["C01"], FD, "fire",
  (FAF, "@handler.register(Division)\ndef handle_division", "@handler.register(Division)\ndef _unused_division(v, fac, sf, F):\n    return handle_product(v, fac, sf, F)\n\n\ndef handle_division"))
V("fd-scalar-nodes-not-inserted", ["C01"], FD, "fire",
  (FAF, "                graph_insert(F, v)\n                factors = noargs", "                factors = noargs"))
V("fd-dependency-edges-reversed", ["C01"], FD, "fire",
  (FAF, "                F.add_edge(i, F.e2i[o])", "                F.add_edge(F.e2i[o], i)"))
V("fd-rank0-first-component-only", ["C04"], FD, "fire",
  (FAF, "                for comp in S.nodes[S_target][\"component\"]:\n                    factors[comp] = {(): F.e2i[S.nodes[S_target][\"expression\"]]}",
        "                comp = S.nodes[S_target][\"component\"][0]\n                factors[comp] = {(): F.e2i[S.nodes[S_target][\"expression\"]]}"))
V("fd-benign-loop-rewrite", ["C01"], FD, "benign",
  (FAF, "    for v in AV:\n        graph_insert(F, v)\n", "    for arg_expr in AV:\n        graph_insert(F, arg_expr)\n"))
GRF = "ffcx/ir/analysis/graph.py"
GB = ["GRAPH-BUILD", "FACT-DRIVER"]
V("gb-preorder-numbering", ["C01"], GB, "fire",
  (GRF, "        for i, o in enumerate(ops):\n            if o is not None and o not in e2i:\n                stack.append((o, getops(o)))\n                ops[i] = None\n                break\n        else:\n            if not isinstance(expr, ufl.classes.MultiIndex | ufl.classes.Label):\n                count = len(e2i)\n                e2i[expr] = count\n            stack.pop()",
        "        if not isinstance(expr, ufl.classes.MultiIndex | ufl.classes.Label):\n            e2i[expr] = len(e2i)\n        stack.pop()\n        for o in reversed(ops):\n            if o not in e2i:\n                stack.append((o, getops(o)))"))
V("gb-edges-skip-second-operand", ["C01"], GB, "fire",
  (GRF, "            V_deps.append([G.e2i[o] for o in expr.ufl_operands])", "            V_deps.append([G.e2i[o] for o in expr.ufl_operands[:1]])"))
V("gb-modified-terminals-expanded", ["C01"], GB, "fire",
  (GRF, "    G = build_graph_vertices(scalar_expressions, skip_terminal_modifiers=True)", "    G = build_graph_vertices(scalar_expressions, skip_terminal_modifiers=False)"))
V("gb-component-overwritten", ["C04"], GB, "fire",
  (GRF, "        G.nodes[V_target][\"component\"] = G.nodes[V_target].get(\"component\", [])\n        G.nodes[V_target][\"component\"].append(comp)", "        G.nodes[V_target][\"component\"] = [comp]"))
V("gb-benign-edge-loop", ["C01"], GB, "benign",
  (GRF, "    for i, edges in enumerate(V_deps):\n        for j in edges:\n            if i == j:\n                continue\n            G.add_edge(i, j)", "    for i, edges in enumerate(V_deps):\n        for j in edges:\n            if i != j:\n                G.add_edge(i, j)"))
V("clamp-default-tolerances-inside", ["C10"], ["TABLE-CLAMP", "OPT-GATE"], "fire",
  (ETF, "        table[np.where(np.isclose(table, n, rtol=rtol, atol=atol))] = n", "        table[np.where(np.isclose(table, n))] = n"))
V("clamp-swapped-tolerances", ["C10"], ["TABLE-CLAMP", "OPT-GATE"], "fire",
  (ETF, "        table[np.where(np.isclose(table, n, rtol=rtol, atol=atol))] = n", "        table[np.where(np.isclose(table, n, rtol=atol, atol=rtol))] = n"))
V("clamp-to-zero-only", ["C10"], ["TABLE-CLAMP", "OPT-GATE"], "fire",
  (ETF, "        table[np.where(np.isclose(table, n, rtol=rtol, atol=atol))] = n", "        table[np.where(np.isclose(table, n, rtol=rtol, atol=atol))] = 0.0"))
V("clamp-benign-positional", ["C10"], ["TABLE-CLAMP", "OPT-GATE"], "benign",
  (ETF, "        table[np.where(np.isclose(table, n, rtol=rtol, atol=atol))] = n", "        close = np.isclose(table, n, rtol, atol)\n        table[np.where(close)] = n"))

# ---- JIT entry points interpreted ---------------------------------------------------------------------------------
JF = ["JIT-FLOW"]
V("jf-objects-sorted", ["C14"], JF, "fire",
  (JIT, "    compiled_objects = []\n    for name in object_names:\n        obj = getattr(compiled_module.lib, name)\n        compiled_objects.append(obj)\n",
        "    compiled_objects = []\n    for name in sorted(object_names):\n        obj = getattr(compiled_module.lib, name)\n        compiled_objects.append(obj)\n"))
V("jf-cached-objects-reversed", ["C14"], JF, "fire",
  (JIT, "                compiled_objects = [getattr(compiled_module.lib, name) for name in object_names]", "                compiled_objects = [getattr(compiled_module.lib, name) for name in reversed(object_names)]"))
V("jf-user-options-to-build", ["C13"], JF, "fire",
  (JIT, "            forms,\n            form_names,\n            module_name,\n            p,\n", "            forms,\n            form_names,\n            module_name,\n            options,\n"))
V("jf-header-for-default-type", ["C13"], JF, "fire",
  (JIT, "            UFC_HEADER_DECL.format(np.dtype(p[\"scalar_type\"]).name)  # type: ignore\n            + UFC_INTEGRAL_DECL\n            + UFC_FORM_DECL\n        )",
        "            UFC_HEADER_DECL.format(np.dtype(\"float64\").name)  # type: ignore\n            + UFC_INTEGRAL_DECL\n            + UFC_FORM_DECL\n        )"))
V("jf-names-without-position", ["C13"], JF, "fire",
  (JIT, "    form_names = [ffcx.naming.form_name(form, i, module_name) for i, form in enumerate(forms)]", "    form_names = [ffcx.naming.form_name(form, 0, module_name) for i, form in enumerate(forms)]"))
V("jf-libraries-not-forwarded", ["C13"], JF, "fire",
  (JIT, "            cffi_extra_compile_args,\n            cffi_verbose,\n            cffi_debug,\n            cffi_libraries,\n            visualise=visualise,\n        )\n    except Exception as e:\n        try:\n            # remove c file so that it will not timeout next time\n            c_filename = cache_dir.joinpath(module_name + \".c\")\n            os.replace(c_filename, c_filename.with_suffix(\".c.failed\"))\n        except Exception:\n            pass\n        raise e\n\n    obj, module = _load_objects(cache_dir, module_name, form_names)",
        "            cffi_extra_compile_args,\n            cffi_verbose,\n            cffi_debug,\n            [],\n            visualise=visualise,\n        )\n    except Exception as e:\n        try:\n            # remove c file so that it will not timeout next time\n            c_filename = cache_dir.joinpath(module_name + \".c\")\n            os.replace(c_filename, c_filename.with_suffix(\".c.failed\"))\n        except Exception:\n            pass\n        raise e\n\n    obj, module = _load_objects(cache_dir, module_name, form_names)"))
V("jf-wait-half", ["C14", "C15"], JF, "fire",
  (JIT, "        for i in range(timeout):\n", "        for i in range(timeout // 2):\n"))
V("jf-benign-comprehension", ["C14"], JF, "benign",
  (JIT, "    compiled_objects = []\n    for name in object_names:\n        obj = getattr(compiled_module.lib, name)\n        compiled_objects.append(obj)\n",
        "    compiled_objects = [getattr(compiled_module.lib, name) for name in object_names]\n"))

# ---- tensor -> scalar lowering --------------------------------------------------------------------------------------
VNF = "ffcx/ir/analysis/valuenumbering.py"
RCF = "ffcx/ir/analysis/reconstruct.py"
IXF = "ffcx/ir/analysis/indexing.py"
SZ = ["GEN-SCALARIZE"]
V("sz-indexed-symbols-reversed", ["C01"], SZ, "fire", (VNF, "        d = map_indexed_arg_components(Aii)\n        symbols = [A_symbols[k] for k in d]", "        d = map_indexed_arg_components(Aii)\n        symbols = [A_symbols[k] for k in reversed(d)]"))
V("sz-derivative-symmetry-lost", ["C01"], SZ, "fire", (VNF, "                mdc = tuple(sorted(dc))", "                mdc = tuple(dc)"))
V("sz-derivative-symmetry-too-coarse", ["C01"], SZ, "fire", (VNF, "                mc = mbc + mdc", "                mc = mbc + (sum(mdc),)"))
V("sz-symmetric-element-ignored", ["C01"], SZ, "fire", (VNF, "                s = mapped_symbols.get(mc)\n                if s is None:\n                    s = self.new_symbol()\n                    mapped_symbols[mc] = s\n                symbols.append(s)\n        else:",
                                                         "                s = self.new_symbol()\n                mapped_symbols[mc] = s\n                symbols.append(s)\n        else:"))
V("sz-index-sum-stride", ["C01"], SZ, "fire", (RCF, "            sops.append([ss[ind + j * postdim] for j in range(d)])", "            sops.append([ss[ind + j] for j in range(d)])"))
V("sz-product-components-swapped", ["C01"], SZ, "fire", (RCF, "    results = [ufl.classes.Product(ops[0][k0], ops[1][k1]) for k0, k1 in indks]", "    results = [ufl.classes.Product(ops[0][k1], ops[1][k0]) for k0, k1 in indks]"))
V("sz-component-tensor-index-order", ["C01"], SZ, "fire", (IXF, "        p2_to_p1_map[k] = fi1.index(mi[k].count())", "        p2_to_p1_map[k] = fi1.index(mi[len(mi) - 1 - k].count())"))
V("sz-list-tensor-rows-reversed", ["C01"], SZ, "fire", (VNF, "        for row in v.ufl_operands:\n            symbols.extend(self.get_node_symbols(row))", "        for row in reversed(v.ufl_operands):\n            symbols.extend(self.get_node_symbols(row))"))
V("sz-division-dispatched-to-sum", ["C01"], SZ, "fire", (RCF, "    ufl.classes.Division: handle_division,", "    ufl.classes.Division: handle_sum,"))
V("sz-first-node-is-result", ["C01"], SZ, "fire", ("ffcx/ir/analysis/graph.py", "    vs = V_symbols[-1]\n    scalar_expressions = W[vs]", "    vs = V_symbols[0]\n    scalar_expressions = W[vs]"))
V("sz-fixed-index-ignored", ["C01"], SZ, "fire", (IXF, "        if isinstance(i, FixedIndex):\n            p2[k] = int(i)", "        if isinstance(i, FixedIndex):\n            p2[k] = 0"))
V("sz-benign-comprehension", ["C01"], SZ, "benign", (VNF, "        symbols = []\n        for row in v.ufl_operands:\n            symbols.extend(self.get_node_symbols(row))\n        return symbols",
                                                      "        return [s for row in v.ufl_operands for s in self.get_node_symbols(row)]"))

# ---- whole kernel ------------------------------------------------------------------------------------------------------
IGF = "ffcx/codegeneration/integral_generator.py"
DFF = "ffcx/codegeneration/definitions.py"
KN = ["GEN-KERNEL"]
V("kn-piecewise-after-loops", ["C01"], KN, "fire", (IGF, "        parts += all_preparts\n        parts += all_quadparts\n", "        parts += all_quadparts\n        parts += all_preparts\n"))
V("kn-loop-one-point-more", ["C08"], KN, "fire", (DFF, "        ranges = [quadrature_rule.weights.size]", "        ranges = [quadrature_rule.weights.size + 1]"))
V("kn-weight-of-first-point", ["C01"], KN, "fire", (IGF, "                weights = self.backend.symbols.weights_table(quadrature_rule)\n                weight = weights[iq.global_index]", "                weights = self.backend.symbols.weights_table(quadrature_rule)\n                weight = weights[0]"))
V("kn-all-rules-in-every-loop", ["C11"], KN, "fire", (IGF, "        for cell, rule in self.ir.expression.integrand.keys():\n            if domain == cell:\n                # Generate code to compute piecewise constant scalar factors\n                all_preparts += self.generate_piecewise_partition(rule, cell)",
                                                    "        for cell, rule in self.ir.expression.integrand.keys():\n            if domain == cell:\n                # Generate code to compute piecewise constant scalar factors\n                all_preparts = self.generate_piecewise_partition(rule, cell)"))
V("kn-tables-not-declared", ["C19"], KN, "fire", (IGF, "        for name in table_names:\n            table = tables[name]\n            parts += self.declare_table(name, table)", "        for name in table_names[1:]:\n            table = tables[name]\n            parts += self.declare_table(name, table)"))
V("kn-assign-instead-of-add", ["C07"], KN, "fire", (IGF, "                body.append(L.AssignAdd(A[multi_index], expression))", "                body.append(L.Assign(A[multi_index], expression))"))
V("kn-fw-cache-ignores-rule", ["C11"], KN, "fire", (IGF, "                key = (quadrature_rule, factor_index, blockdata.all_factors_piecewise)", "                key = (\"fw\",)"))
V("kn-benign-rename", ["C01"], KN, "benign", (IGF, "        all_preparts = []\n        all_quadparts = []\n", "        all_preparts: list = []\n        all_quadparts: list = []\n"))
EGF = "ffcx/codegeneration/expression_generator.py"
EK = ["EXPR-KERNEL"]
V("ek-component-index-swapped", ["C04"], EK, "fire", (EGF, "                indices = [A_indices[0], fi_ci[1]] + list(A_indices[1:])", "                indices = [fi_ci[1], A_indices[0]] + list(A_indices[1:])"))
V("ek-points-minus-one", ["C04"], EK, "fire", (EGF, "            quadparts = [L.ForRange(iq, 0, num_points, body=body)]", "            quadparts = [L.ForRange(iq, 0, num_points - 1, body=body)]"))
V("ek-piecewise-inside-after", ["C04"], EK, "fire", (EGF, "        parts += self.generate_geometry_tables()\n        parts += self.generate_piecewise_partition()\n", "        parts += self.generate_geometry_tables()\n"))
V("ek-assign", ["C07"], EK, "fire", (EGF, "                body.append(L.AssignAdd(A[multi_index], Brhs))", "                body.append(L.Assign(A[multi_index], Brhs))"))
V("ek-first-factor-for-all-components", ["C04"], EK, "fire", (EGF, "            for fi_ci in blockdata.factor_indices_comp_indices:\n                f = self.get_var(F.nodes[fi_ci[0]][\"expression\"])\n                Brhs = L.float_product([f] + arg_factors)\n                indices",
                                                               "            for fi_ci in blockdata.factor_indices_comp_indices:\n                f = self.get_var(F.nodes[blockdata.factor_indices_comp_indices[0][0]][\"expression\"])\n                Brhs = L.float_product([f] + arg_factors)\n                indices"))
V("ek-benign", ["C04"], EK, "benign", (EGF, "        all_preparts = []\n        all_quadparts = []\n\n        preparts, quadparts = self.generate_quadrature_loop()\n        all_preparts += preparts\n        all_quadparts += quadparts\n",
                                        "        all_preparts, all_quadparts = self.generate_quadrature_loop()\n        all_preparts, all_quadparts = list(all_preparts), list(all_quadparts)\n"))

# ---- GEOM-ACCESS: accessors and table writers interpreted together
V("ga-normal-wrong-side", ["C02"], ["GEOM-ACCESS"], "fire", (ACC, "            table = L.Symbol(f\"{cellname}_reference_normals\", dtype=L.DataType.REAL)\n            facet = self.symbols.entity(\"facet\", mt.restriction)", "            table = L.Symbol(f\"{cellname}_reference_normals\", dtype=L.DataType.REAL)\n            facet = self.symbols.entity(\"facet\", None)"))
V("ga-orientation-int", ["C19", "C01", "C02", "C17"], ["GEOM-ACCESS"], "fire", (ACC, "        table = L.Symbol(f\"{cellname}_facet_orientation\", dtype=L.DataType.REAL)", "        table = L.Symbol(f\"{cellname}_facet_orientation\", dtype=L.DataType.INT)"))
V("ga-dispatch-swapped", ["C02", "C04", "C19"], ["GEOM-ACCESS"], "fire", (ACC, "            ufl.geometry.CellFacetJacobian: self.cell_facet_jacobian,", "            ufl.geometry.CellFacetJacobian: self.cell_ridge_jacobian,"))
V("ga-minus-side-offset", ["C02"], ["GEOM-ACCESS"], "fire", ("ffcx/codegeneration/symbols.py", "            offset = num_scalar_dofs * 3\n", "            offset = num_scalar_dofs * 2\n"))
V("ga-facet-jacobian-transposed", ["C02", "C04"], ["GEOM-ACCESS"], "fire", (ACC, "            return table[facet][mt.component[0]][mt.component[1]]", "            return table[facet][mt.component[1]][mt.component[0]]"))
V("ga-writer-edge-vector-sign", ["C02", "C04", "C01"], ["GEOM-ACCESS"], "fire", ("ffcx/codegeneration/geometry.py", "    edge_vectors = [geometry[j] - geometry[i] for i, j in topology[1]]", "    edge_vectors = [geometry[i] - geometry[j] for i, j in topology[1]]"))
V("ga-table-name-typo", ["C19", "C02", "C04"], ["GEOM-ACCESS"], "fire", (ACC, "            table = L.Symbol(f\"{cellname}_reference_normals\", dtype=L.DataType.REAL)", "            table = L.Symbol(f\"{cellname}_reference_normal\", dtype=L.DataType.REAL)"))
V("ga-benign-local-name", ["C02", "C04"], ["GEOM-ACCESS"], "benign", (ACC, "            return table[facet * num_facet_edges + mt.component[0]][mt.component[1]]", "            row = facet * num_facet_edges + mt.component[0]\n            return table[row][mt.component[1]]"))
