"""Self-test variants: (name, props, rules, kind, edits). kind = fire | benign.

Each edit is (path relative to the repo root, old text, new text); the old text must occur exactly
once in the current tree, otherwise the variant is skipped (reported, not failed).
"""

JIT = "ffcx/codegeneration/jit.py"
CF = "ffcx/codegeneration/C/formatter.py"
NF = "ffcx/codegeneration/numba/formatter.py"
LN = "ffcx/codegeneration/lnodes.py"
OPT = "ffcx/codegeneration/optimizer.py"

VARIANTS = []


def V(name, props, rules, kind, *edits, **kw):
    VARIANTS.append({"name": name, "props": props, "rules": rules, "kind": kind, "edits": list(edits), **kw})


# ---- C14 / C15 -----------------------------------------------------------------------------------
J = ["LOCK-PROTO", "FAIL-RELEASE", "RESTORE-PAIR"]
V("jit-lock-mode-w", ["C14", "C15"], J, "fire", (JIT, 'with open(c_filename, "x"):', 'with open(c_filename, "w"):'))
V("jit-marker-before-compile", ["C14", "C15"], J, "fire",
  (JIT, '    fd = open(ready_name, "x")\n    fd.write(s)\n    fd.close()\n', '    fd = open(ready_name, "x")\n    fd.close()\n'),
  (JIT, '    t0 = time.time()\n    f = io.StringIO()\n', '    fd = open(ready_name, "x")\n    fd.close()\n    t0 = time.time()\n    f = io.StringIO()\n'),
  )
V("jit-load-without-marker", ["C14", "C15"], J, "fire",
  (JIT, "            if os.path.exists(ready_name):\n                spec = finder.find_spec(module_name)\n                if spec is None:",
        "            spec = finder.find_spec(module_name)\n            if spec is not None or os.path.exists(ready_name):\n                if spec is None:"))
V("jit-cached-falls-through", ["C14"], J, "fire",
  (JIT, "        obj, mod = get_cached_module(module_name, form_names, cache_dir, timeout)\n        if obj is not None:\n            return obj, mod, (None, None)\n",
        "        obj, mod = get_cached_module(module_name, form_names, cache_dir, timeout)\n"))
V("jit-swallow-failure", ["C15"], J, "fire",
  (JIT, "            os.replace(c_filename, c_filename.with_suffix(\".c.failed\"))\n        except Exception:\n            pass\n        raise e\n\n    obj, module = _load_objects(cache_dir, module_name, form_names)",
        "            os.replace(c_filename, c_filename.with_suffix(\".c.failed\"))\n        except Exception:\n            pass\n        return None, None, (None, None)\n\n    obj, module = _load_objects(cache_dir, module_name, form_names)"))
V("jit-no-rename", ["C15"], J, "fire",
  (JIT, "            c_filename = cache_dir.joinpath(module_name + \".c\")\n            os.replace(c_filename, c_filename.with_suffix(\".c.failed\"))\n        except Exception:\n            pass\n        raise e\n\n    obj, module = _load_objects(cache_dir, module_name, expr_names)",
        "            c_filename = cache_dir.joinpath(module_name + \".c\")\n            logger.info(c_filename)\n        except Exception:\n            pass\n        raise e\n\n    obj, module = _load_objects(cache_dir, module_name, expr_names)"))
V("jit-narrow-handler", ["C15"], J, "fire",
  (JIT, "    except Exception as e:\n        try:\n            # remove c file so that it will not timeout next time\n            c_filename = cache_dir.joinpath(module_name + \".c\")\n            os.replace(c_filename, c_filename.with_suffix(\".c.failed\"))\n        except Exception:\n            pass\n        raise e\n\n    obj, module = _load_objects(cache_dir, module_name, form_names)",
        "    except RuntimeError as e:\n        try:\n            # remove c file so that it will not timeout next time\n            c_filename = cache_dir.joinpath(module_name + \".c\")\n            os.replace(c_filename, c_filename.with_suffix(\".c.failed\"))\n        except Exception:\n            pass\n        raise e\n\n    obj, module = _load_objects(cache_dir, module_name, form_names)"))
V("jit-restore-not-in-finally", ["C15"], J, "fire",
  (JIT, "    try:\n        with redirect_stdout(f):\n            ffibuilder.compile(tmpdir=cache_dir, verbose=True, debug=cffi_debug)\n    finally:\n        # Copy back the original handlers (in case someone is logging into\n        # root logger and has custom handlers), also if the compiler fails\n        root_logger.handlers = old_handlers\n",
        "    with redirect_stdout(f):\n        ffibuilder.compile(tmpdir=cache_dir, verbose=True, debug=cffi_debug)\n    root_logger.handlers = old_handlers\n"))
V("jit-stdout-swap", ["C15"], J, "fire",
  (JIT, "        with redirect_stdout(f):\n            ffibuilder.compile(tmpdir=cache_dir, verbose=True, debug=cffi_debug)\n",
        "        old_stdout = sys.stdout\n        sys.stdout = f\n        ffibuilder.compile(tmpdir=cache_dir, verbose=True, debug=cffi_debug)\n        sys.stdout = old_stdout\n"))
V("jit-unbounded-wait", ["C14", "C15"], J, "fire",
  (JIT, "        for i in range(timeout):\n", "        while True:\n"),
  (JIT, "        raise TimeoutError(\n            \"JIT compilation timed out, probably due to a failed previous compile. \"\n            f\"Try cleaning cache (e.g. remove {c_filename}) or increase timeout option.\"\n        )\n", ""))
V("jit-benign-rename-locals", ["C14", "C15"], J, "benign",
  (JIT, "    ready_name = c_filename.with_suffix(\".c.cached\")\n\n    # Ensure cache dir exists", "    ready_name = c_filename.with_suffix(\".c.cached\")\n    logger.debug(ready_name)\n\n    # Ensure cache dir exists"))
V("jit-benign-is-none-guard", ["C14", "C15"], J, "benign",
  (JIT, "        obj, mod = get_cached_module(module_name, expr_names, cache_dir, timeout)\n        if obj is not None:\n            return obj, mod, (None, None)\n",
        "        cached, mod = get_cached_module(module_name, expr_names, cache_dir, timeout)\n        if cached is None:\n            pass\n        else:\n            return cached, mod, (None, None)\n"))

# ---- C16 -----------------------------------------------------------------------------------------
F = ["PREC-GRAMMAR", "LOOP-BOUNDS", "STMT-TERM", "LIT-DIGITS"]
V("fmt-c-binop-gt", ["C16"], F, "fire",
  (CF, "        if oper.lhs.precedence >= oper.precedence:\n            lhs = f\"({lhs})\"\n        if oper.rhs.precedence >= oper.precedence:\n            rhs = f\"({rhs})\"",
       "        if oper.lhs.precedence >= oper.precedence:\n            lhs = f\"({lhs})\"\n        if oper.rhs.precedence > oper.precedence:\n            rhs = f\"({rhs})\""))
V("fmt-c-nary-gt", ["C16"], F, "fire",
  (CF, "            if oper.args[i].precedence >= oper.precedence:\n                args[i] = \"(\" + args[i] + \")\"",
       "            if oper.args[i].precedence > oper.precedence:\n                args[i] = \"(\" + args[i] + \")\""))
V("fmt-numba-nary-gt", ["C16", "C18"], F, "fire",
  (NF, "            if oper.args[i].precedence >= oper.precedence:\n                args[i] = f\"({args[i]})\"",
       "            if oper.args[i].precedence > oper.precedence:\n                args[i] = f\"({args[i]})\""))
V("fmt-prec-table-mul-add-swapped", ["C16"], F, "fire",
  (LN, "    MUL = 4\n    DIV = 4\n\n    ADD = 5\n    SUB = 5\n", "    MUL = 5\n    DIV = 5\n\n    ADD = 4\n    SUB = 4\n"))
V("fmt-prec-neg-loose", ["C16"], F, "fire", (LN, "    NOT = 3\n    NEG = 3\n", "    NOT = 3\n    NEG = 5\n"))
V("fmt-c-conditional-no-paren", ["C16"], F, "fire",
  (CF, "        if s.condition.precedence >= s.precedence:\n            c = \"(\" + c + \")\"", "        if s.condition.precedence > s.precedence:\n            c = \"(\" + c + \")\""))
V("fmt-digits-8", ["C16"], F, "fire", (CF, "            return f\"{x:.17}\"", "            return f\"{x:.8}\""))
V("fmt-c-neg-literal", ["C16"], F, "fire",
  (CF, "        if oper.arg.precedence >= oper.precedence or arg.startswith(oper.op):", "        if oper.arg.precedence >= oper.precedence:"))
V("fmt-numba-eq-chain", ["C16", "C18"], F, "fire",
  (NF, "        if isinstance(oper, (L.EQ, L.NE)):\n            precedence = L.PRECEDENCE.LT\n", ""))
V("fmt-c-assign-only", ["C16"], F, "fire",
  (CF, "    @__call__.register\n    def _(self, expr: L.AssignOp) -> str:", "    @__call__.register\n    def _(self, expr: L.Assign) -> str:"))
V("fmt-c-loop-le", ["C16"], F, "fire",
  (CF, "{index} < {end}; ++{index})", "{index} <= {end}; ++{index})"))
V("fmt-benign-extra-parens", ["C16"], F, "benign",
  (CF, "        if oper.arg.precedence >= oper.precedence or arg.startswith(oper.op):\n            return f\"{oper.op}({arg})\"\n        return f\"{oper.op}{arg}\"",
       "        return f\"{oper.op}({arg})\""))
V("fmt-benign-refactor-binop", ["C16"], F, "benign",
  (CF, "        # Return combined string\n        return f\"{lhs} {oper.op} {rhs}\"", "        # Return combined string\n        op = oper.op\n        return lhs + \" \" + op + \" \" + rhs"))
V("fmt-benign-digits-e", ["C16"], F, "benign", (CF, "            return f\"{x:.17}\"", "            return f\"{x:.16e}\""))

# ---- C17 -----------------------------------------------------------------------------------------
A = ["ALG-IDENT", "FOLD-HELPERS", "LICM-SOUND"]
V("alg-rsub-zero-self", ["C17"], A, "fire",
  (LN, "        other = as_lexpr(other)\n        if is_zero_lexpr(self):\n            return other\n        if is_zero_lexpr(other):\n            return -self\n",
       "        other = as_lexpr(other)\n        if is_zero_lexpr(self):\n            return other\n        if is_zero_lexpr(other):\n            return self\n"))
V("alg-sub-neg-other", ["C17"], A, "fire",
  (LN, "        if isinstance(other, Neg):\n            return Add(self, other.arg)\n        if isinstance(self, LiteralInt) and isinstance(other, LiteralInt):\n            return LiteralInt(self.value - other.value)",
       "        if isinstance(other, Neg):\n            return Sub(self, other.arg)\n        if isinstance(self, LiteralInt) and isinstance(other, LiteralInt):\n            return LiteralInt(self.value - other.value)"))
V("alg-mul-minus-one", ["C17"], A, "fire",
  (LN, "        if is_negative_one_lexpr(self):\n            return Neg(other)\n        if isinstance(self, LiteralInt) and isinstance(other, LiteralInt):",
       "        if is_negative_one_lexpr(self):\n            return other\n        if isinstance(self, LiteralInt) and isinstance(other, LiteralInt):"))
V("alg-is-one-helper", ["C17"], A, "fire",
  (LN, "    return (isinstance(lexpr, LiteralFloat) and lexpr.value == 1.0) or (\n        isinstance(lexpr, LiteralInt) and lexpr.value == 1\n    )",
       "    return (isinstance(lexpr, LiteralFloat) and lexpr.value == 1.0) or (\n        isinstance(lexpr, LiteralInt) and lexpr.value >= 1\n    )"))
V("alg-rdiv-order", ["C17"], A, "fire", (LN, "        return Div(other, self)", "        return Div(self, other)"))
V("alg-div-zero-numerator-first", ["C17"], A, "fire",
  (LN, "        other = as_lexpr(other)\n        if is_zero_lexpr(other):\n            raise ValueError(\"Division by zero!\")\n        if is_zero_lexpr(self):\n            return self\n        return Div(self, other)",
       "        other = as_lexpr(other)\n        if is_zero_lexpr(self):\n            return self\n        if is_zero_lexpr(other):\n            raise ValueError(\"Division by zero!\")\n        return Div(self, other)"))
V("alg-float-product-zero-filter", ["C17"], A, "fire",
  (LN, "    factors = [f for f in factors if not is_one_lexpr(f)]", "    factors = [f for f in factors if not is_one_lexpr(f) and not is_zero_lexpr(f)]"))
V("alg-float-product-empty", ["C17"], A, "fire", (LN, "        return LiteralFloat(1.0)\n    elif len(factors) == 1:", "        return LiteralFloat(0.0)\n    elif len(factors) == 1:"))
V("alg-multiindex-stride", ["C17", "C08"], A, "fire",
  (LN, "            self.global_index = Sum(n * sym for n, sym in zip(stride[1:], symbols))", "            self.global_index = Sum(n * sym for n, sym in zip(stride, symbols))"))
V("alg-ufl-division-swapped", ["C17"], A, "fire", (LN, "    ufl.algebra.Division: lambda x, a, b: a / b,", "    ufl.algebra.Division: lambda x, a, b: b / a,"))
V("alg-ufl-gt-swapped", ["C17"], A, "fire", (LN, "    ufl.classes.GT: lambda x, a, b: GT(a, b),", "    ufl.classes.GT: lambda x, a, b: GT(b, a),"))
V("opt-licm-polarity", ["C17"], A, "fire", (OPT, "                if not dependency:\n                    hoist_candidates.append(arg)", "                if dependency:\n                    hoist_candidates.append(arg)"))
V("opt-licm-outer-index", ["C17"], A, "fire", (OPT, "dependency = check_dependency(arg, inner_loop.index)", "dependency = check_dependency(arg, outer_loop.index)"))
V("opt-licm-preloop-after", ["C17"], A, "fire", (OPT, "    section.statements = pre_loop + section.statements", "    section.statements = section.statements + pre_loop"))
V("opt-check-dep-default-false", ["C17"], A, "fire",
  (OPT, "    else:\n        raise NotImplementedError(f\"Statement {statement} not supported.\")\n\n    return False", "    return False"))
V("opt-fuse-drop-declarations", ["C17"], A, "fire", (OPT, "                declarations.extend(section.declarations)\n", ""))
V("opt-fuse-loops-key", ["C17"], A, "fire", (OPT, "            id = (statement.index, statement.begin, statement.end)", "            id = (statement.index, statement.begin)"))
V("opt-licm-ungated", ["C17"], A, "fire", (OPT, "            if L.Annotation.licm in section.annotations:\n                section = licm(section, quadrature_rule)", "            if True:\n                section = licm(section, quadrature_rule)"))
V("alg-benign-elif", ["C17"], A, "benign",
  (LN, "        other = as_lexpr(other)\n        if is_zero_lexpr(self):\n            return -other\n        if is_zero_lexpr(other):\n            return self\n",
       "        other = as_lexpr(other)\n        if is_zero_lexpr(self):\n            return -other\n        elif is_zero_lexpr(other):\n            return self\n"))
V("alg-benign-extra-fold", ["C17"], A, "benign",
  (LN, "        if isinstance(self, Neg):\n            return Sub(other, self.arg)\n        return Add(other, self)", "        if isinstance(self, Neg):\n            return Sub(other, self.arg)\n        if isinstance(other, Neg):\n            return Sub(self, other.arg)\n        return Add(other, self)"))
V("opt-benign-rename", ["C17"], A, "benign", (OPT, "                dependency = check_dependency(arg, inner_loop.index)\n                if not dependency:\n", "                dep = check_dependency(arg, inner_loop.index)\n                if dep is False:\n"))
