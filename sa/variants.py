"""Self-test variants: (name, props, rules, kind, edits). kind = fire | benign.

Each edit is (path relative to the repo root, old text, new text); the old text must occur exactly
once in the current tree, otherwise the variant is skipped (reported, not failed).
"""

JIT = "ffcx/codegeneration/jit.py"
CF = "ffcx/codegeneration/C/formatter.py"
NF = "ffcx/codegeneration/numba/formatter.py"
LN = "ffcx/codegeneration/lnodes.py"
OPT = "ffcx/codegeneration/optimizer.py"

VARIANTS = []


def V(name, props, rules, kind, *edits, **kw):
    VARIANTS.append({"name": name, "props": props, "rules": rules, "kind": kind, "edits": list(edits), **kw})


# ---- C14 / C15 -----------------------------------------------------------------------------------
J = ["LOCK-PROTO", "FAIL-RELEASE", "RESTORE-PAIR"]
V("jit-lock-mode-w", ["C14", "C15"], J, "fire", (JIT, 'with open(c_filename, "x"):', 'with open(c_filename, "w"):'))
V("jit-marker-before-compile", ["C14", "C15"], J, "fire",
  (JIT, '    fd = open(ready_name, "x")\n    fd.write(s)\n    fd.close()\n', '    fd = open(ready_name, "x")\n    fd.close()\n'),
  (JIT, '    t0 = time.time()\n    f = io.StringIO()\n', '    fd = open(ready_name, "x")\n    fd.close()\n    t0 = time.time()\n    f = io.StringIO()\n'),
  )
V("jit-load-without-marker", ["C14", "C15"], J, "fire",
  (JIT, "            if os.path.exists(ready_name):\n                spec = finder.find_spec(module_name)\n                if spec is None:",
        "            spec = finder.find_spec(module_name)\n            if spec is not None or os.path.exists(ready_name):\n                if spec is None:"))
V("jit-cached-falls-through", ["C14"], J, "fire",
  (JIT, "        obj, mod = get_cached_module(module_name, form_names, cache_dir, timeout)\n        if obj is not None:\n            return obj, mod, (None, None)\n",
        "        obj, mod = get_cached_module(module_name, form_names, cache_dir, timeout)\n"))
V("jit-swallow-failure", ["C15"], J, "fire",
  (JIT, "            os.replace(c_filename, c_filename.with_suffix(\".c.failed\"))\n        except Exception:\n            pass\n        raise e\n\n    obj, module = _load_objects(cache_dir, module_name, form_names)",
        "            os.replace(c_filename, c_filename.with_suffix(\".c.failed\"))\n        except Exception:\n            pass\n        return None, None, (None, None)\n\n    obj, module = _load_objects(cache_dir, module_name, form_names)"))
V("jit-no-rename", ["C15"], J, "fire",
  (JIT, "            c_filename = cache_dir.joinpath(module_name + \".c\")\n            os.replace(c_filename, c_filename.with_suffix(\".c.failed\"))\n        except Exception:\n            pass\n        raise e\n\n    obj, module = _load_objects(cache_dir, module_name, expr_names)",
        "            c_filename = cache_dir.joinpath(module_name + \".c\")\n            logger.info(c_filename)\n        except Exception:\n            pass\n        raise e\n\n    obj, module = _load_objects(cache_dir, module_name, expr_names)"))
V("jit-narrow-handler", ["C15"], J, "fire",
  (JIT, "    except Exception as e:\n        try:\n            # remove c file so that it will not timeout next time\n            c_filename = cache_dir.joinpath(module_name + \".c\")\n            os.replace(c_filename, c_filename.with_suffix(\".c.failed\"))\n        except Exception:\n            pass\n        raise e\n\n    obj, module = _load_objects(cache_dir, module_name, form_names)",
        "    except RuntimeError as e:\n        try:\n            # remove c file so that it will not timeout next time\n            c_filename = cache_dir.joinpath(module_name + \".c\")\n            os.replace(c_filename, c_filename.with_suffix(\".c.failed\"))\n        except Exception:\n            pass\n        raise e\n\n    obj, module = _load_objects(cache_dir, module_name, form_names)"))
V("jit-restore-not-in-finally", ["C15"], J, "fire",
  (JIT, "    try:\n        with redirect_stdout(f):\n            ffibuilder.compile(tmpdir=cache_dir, verbose=True, debug=cffi_debug)\n    finally:\n        # Copy back the original handlers (in case someone is logging into\n        # root logger and has custom handlers), also if the compiler fails\n        root_logger.handlers = old_handlers\n",
        "    with redirect_stdout(f):\n        ffibuilder.compile(tmpdir=cache_dir, verbose=True, debug=cffi_debug)\n    root_logger.handlers = old_handlers\n"))
V("jit-stdout-swap", ["C15"], J, "fire",
  (JIT, "        with redirect_stdout(f):\n            ffibuilder.compile(tmpdir=cache_dir, verbose=True, debug=cffi_debug)\n",
        "        old_stdout = sys.stdout\n        sys.stdout = f\n        ffibuilder.compile(tmpdir=cache_dir, verbose=True, debug=cffi_debug)\n        sys.stdout = old_stdout\n"))
V("jit-unbounded-wait", ["C14", "C15"], J, "fire",
  (JIT, "        for i in range(timeout):\n", "        while True:\n"),
  (JIT, "        raise TimeoutError(\n            \"JIT compilation timed out, probably due to a failed previous compile. \"\n            f\"Try cleaning cache (e.g. remove {c_filename}) or increase timeout option.\"\n        )\n", ""))
V("jit-benign-rename-locals", ["C14", "C15"], J, "benign",
  (JIT, "    ready_name = c_filename.with_suffix(\".c.cached\")\n\n    # Ensure cache dir exists", "    ready_name = c_filename.with_suffix(\".c.cached\")\n    logger.debug(ready_name)\n\n    # Ensure cache dir exists"))
V("jit-benign-is-none-guard", ["C14", "C15"], J, "benign",
  (JIT, "        obj, mod = get_cached_module(module_name, expr_names, cache_dir, timeout)\n        if obj is not None:\n            return obj, mod, (None, None)\n",
        "        cached, mod = get_cached_module(module_name, expr_names, cache_dir, timeout)\n        if cached is None:\n            pass\n        else:\n            return cached, mod, (None, None)\n"))

# ---- C16 -----------------------------------------------------------------------------------------
F = ["PREC-GRAMMAR", "LOOP-BOUNDS", "STMT-TERM", "LIT-DIGITS"]
V("fmt-c-binop-gt", ["C16"], F, "fire",
  (CF, "        if oper.lhs.precedence >= oper.precedence:\n            lhs = f\"({lhs})\"\n        if oper.rhs.precedence >= oper.precedence:\n            rhs = f\"({rhs})\"",
       "        if oper.lhs.precedence >= oper.precedence:\n            lhs = f\"({lhs})\"\n        if oper.rhs.precedence > oper.precedence:\n            rhs = f\"({rhs})\""))
V("fmt-c-nary-gt", ["C16"], F, "fire",
  (CF, "            if oper.args[i].precedence >= oper.precedence:\n                args[i] = \"(\" + args[i] + \")\"",
       "            if oper.args[i].precedence > oper.precedence:\n                args[i] = \"(\" + args[i] + \")\""))
V("fmt-numba-nary-gt", ["C16", "C18"], F, "fire",
  (NF, "            if oper.args[i].precedence >= oper.precedence:\n                args[i] = f\"({args[i]})\"",
       "            if oper.args[i].precedence > oper.precedence:\n                args[i] = f\"({args[i]})\""))
V("fmt-prec-table-mul-add-swapped", ["C16"], F, "fire",
  (LN, "    MUL = 4\n    DIV = 4\n\n    ADD = 5\n    SUB = 5\n", "    MUL = 5\n    DIV = 5\n\n    ADD = 4\n    SUB = 4\n"))
V("fmt-prec-neg-loose", ["C16"], F, "fire", (LN, "    NOT = 3\n    NEG = 3\n", "    NOT = 3\n    NEG = 5\n"))
V("fmt-c-conditional-no-paren", ["C16"], F, "fire",
  (CF, "        if s.condition.precedence >= s.precedence:\n            c = \"(\" + c + \")\"", "        if s.condition.precedence > s.precedence:\n            c = \"(\" + c + \")\""))
V("fmt-digits-8", ["C16"], F, "fire", (CF, "            return f\"{x:.17}\"", "            return f\"{x:.8}\""))
V("fmt-c-neg-literal", ["C16"], F, "fire",
  (CF, "        if oper.arg.precedence >= oper.precedence or arg.startswith(oper.op):", "        if oper.arg.precedence >= oper.precedence:"))
V("fmt-numba-eq-chain", ["C16", "C18"], F, "fire",
  (NF, "        if isinstance(oper, (L.EQ, L.NE)):\n            precedence = L.PRECEDENCE.LT\n", ""))
V("fmt-c-assign-only", ["C16"], F, "fire",
  (CF, "    @__call__.register\n    def _(self, expr: L.AssignOp) -> str:", "    @__call__.register\n    def _(self, expr: L.Assign) -> str:"))
V("fmt-c-loop-le", ["C16"], F, "fire",
  (CF, "{index} < {end}; ++{index})", "{index} <= {end}; ++{index})"))
V("fmt-benign-extra-parens", ["C16"], F, "benign",
  (CF, "        if oper.arg.precedence >= oper.precedence or arg.startswith(oper.op):\n            return f\"{oper.op}({arg})\"\n        return f\"{oper.op}{arg}\"",
       "        return f\"{oper.op}({arg})\""))
V("fmt-benign-refactor-binop", ["C16"], F, "benign",
  (CF, "        # Return combined string\n        return f\"{lhs} {oper.op} {rhs}\"", "        # Return combined string\n        op = oper.op\n        return lhs + \" \" + op + \" \" + rhs"))
V("fmt-benign-digits-e", ["C16"], F, "benign", (CF, "            return f\"{x:.17}\"", "            return f\"{x:.16e}\""))

# ---- C17 -----------------------------------------------------------------------------------------
A = ["ALG-IDENT", "FOLD-HELPERS", "LICM-SOUND"]
V("alg-rsub-zero-self", ["C17"], A, "fire",
  (LN, "        other = as_lexpr(other)\n        if is_zero_lexpr(self):\n            return other\n        if is_zero_lexpr(other):\n            return -self\n",
       "        other = as_lexpr(other)\n        if is_zero_lexpr(self):\n            return other\n        if is_zero_lexpr(other):\n            return self\n"))
V("alg-sub-neg-other", ["C17"], A, "fire",
  (LN, "        if isinstance(other, Neg):\n            return Add(self, other.arg)\n        if isinstance(self, LiteralInt) and isinstance(other, LiteralInt):\n            return LiteralInt(self.value - other.value)",
       "        if isinstance(other, Neg):\n            return Sub(self, other.arg)\n        if isinstance(self, LiteralInt) and isinstance(other, LiteralInt):\n            return LiteralInt(self.value - other.value)"))
V("alg-mul-minus-one", ["C17"], A, "fire",
  (LN, "        if is_negative_one_lexpr(self):\n            return Neg(other)\n        if isinstance(self, LiteralInt) and isinstance(other, LiteralInt):",
       "        if is_negative_one_lexpr(self):\n            return other\n        if isinstance(self, LiteralInt) and isinstance(other, LiteralInt):"))
V("alg-is-one-helper", ["C17"], A, "fire",
  (LN, "    return (isinstance(lexpr, LiteralFloat) and lexpr.value == 1.0) or (\n        isinstance(lexpr, LiteralInt) and lexpr.value == 1\n    )",
       "    return (isinstance(lexpr, LiteralFloat) and lexpr.value == 1.0) or (\n        isinstance(lexpr, LiteralInt) and lexpr.value >= 1\n    )"))
V("alg-rdiv-order", ["C17"], A, "fire", (LN, "        return Div(other, self)", "        return Div(self, other)"))
V("alg-div-zero-numerator-first", ["C17"], A, "fire",
  (LN, "        other = as_lexpr(other)\n        if is_zero_lexpr(other):\n            raise ValueError(\"Division by zero!\")\n        if is_zero_lexpr(self):\n            return self\n        return Div(self, other)",
       "        other = as_lexpr(other)\n        if is_zero_lexpr(self):\n            return self\n        if is_zero_lexpr(other):\n            raise ValueError(\"Division by zero!\")\n        return Div(self, other)"))
V("alg-float-product-zero-filter", ["C17"], A, "fire",
  (LN, "    factors = [f for f in factors if not is_one_lexpr(f)]", "    factors = [f for f in factors if not is_one_lexpr(f) and not is_zero_lexpr(f)]"))
V("alg-float-product-empty", ["C17"], A, "fire", (LN, "        return LiteralFloat(1.0)\n    elif len(factors) == 1:", "        return LiteralFloat(0.0)\n    elif len(factors) == 1:"))
V("alg-multiindex-stride", ["C17", "C08"], A, "fire",
  (LN, "            self.global_index = Sum(n * sym for n, sym in zip(stride[1:], symbols))", "            self.global_index = Sum(n * sym for n, sym in zip(stride, symbols))"))
V("alg-ufl-division-swapped", ["C17"], A, "fire", (LN, "    ufl.algebra.Division: lambda x, a, b: a / b,", "    ufl.algebra.Division: lambda x, a, b: b / a,"))
V("alg-ufl-gt-swapped", ["C17"], A, "fire", (LN, "    ufl.classes.GT: lambda x, a, b: GT(a, b),", "    ufl.classes.GT: lambda x, a, b: GT(b, a),"))
V("opt-licm-polarity", ["C17"], A, "fire", (OPT, "                if not dependency:\n                    hoist_candidates.append(arg)", "                if dependency:\n                    hoist_candidates.append(arg)"))
V("opt-licm-outer-index", ["C17"], A, "fire", (OPT, "dependency = check_dependency(arg, inner_loop.index)", "dependency = check_dependency(arg, outer_loop.index)"))
V("opt-licm-preloop-after", ["C17"], A, "fire", (OPT, "    section.statements = pre_loop + section.statements", "    section.statements = section.statements + pre_loop"))
V("opt-check-dep-default-false", ["C17"], A, "fire",
  (OPT, "    else:\n        raise NotImplementedError(f\"Statement {statement} not supported.\")\n\n    return False", "    return False"))
V("opt-fuse-drop-declarations", ["C17"], A, "fire", (OPT, "                declarations.extend(section.declarations)\n", ""))
V("opt-fuse-loops-key", ["C17"], A, "fire", (OPT, "            id = (statement.index, statement.begin, statement.end)", "            id = (statement.index, statement.begin)"))
V("opt-licm-ungated", ["C17"], A, "fire", (OPT, "            if L.Annotation.licm in section.annotations:\n                section = licm(section, quadrature_rule)", "            if True:\n                section = licm(section, quadrature_rule)"))
V("alg-benign-elif", ["C17"], A, "benign",
  (LN, "        other = as_lexpr(other)\n        if is_zero_lexpr(self):\n            return -other\n        if is_zero_lexpr(other):\n            return self\n",
       "        other = as_lexpr(other)\n        if is_zero_lexpr(self):\n            return -other\n        elif is_zero_lexpr(other):\n            return self\n"))
V("alg-benign-extra-fold", ["C17"], A, "benign",
  (LN, "        if isinstance(self, Neg):\n            return Sub(other, self.arg)\n        return Add(other, self)", "        if isinstance(self, Neg):\n            return Sub(other, self.arg)\n        if isinstance(other, Neg):\n            return Sub(self, other.arg)\n        return Add(other, self)"))
V("opt-benign-rename", ["C17"], A, "benign", (OPT, "                dependency = check_dependency(arg, inner_loop.index)\n                if not dependency:\n", "                dep = check_dependency(arg, inner_loop.index)\n                if dep is False:\n"))

# ---- C12 / C13 -------------------------------------------------------------------------------------
ET = "ffcx/ir/elementtables.py"
IRI = "ffcx/ir/integral.py"
IG = "ffcx/codegeneration/integral_generator.py"
EG = "ffcx/codegeneration/expression_generator.py"
SYM = "ffcx/codegeneration/symbols.py"
NAM = "ffcx/naming.py"
REP = "ffcx/ir/representation.py"
RU = "ffcx/ir/representationutils.py"
FAC = "ffcx/ir/analysis/factorization.py"
CG = "ffcx/codegeneration/codegeneration.py"
D = ["ORDER-TAINT", "HISTORY-ID", "GLOBAL-STATE"]
V("det-fe-numbering-set", ["C12"], D, "fire",
  (ET, "        list(dict.fromkeys(ufl.algorithms.analysis.extract_sub_elements(all_elements)))", "        set(ufl.algorithms.analysis.extract_sub_elements(all_elements))"))
V("det-active-tables-unsorted", ["C12"], D, "fire", (IRI, "    for name in sorted(active_table_names):", "    for name in active_table_names:"))
V("det-section-inputs-set", ["C12"], D, "fire", (OPT, "    input = list(dict.fromkeys(input))", "    input = list(set(input))"))
V("det-block-inputs-set", ["C12"], D, "fire", (IG, "        input = list(dict.fromkeys(input))", "        input = list(set(input))"))
V("det-geometry-tables-unsorted", ["C12"], D, "fire", (EG, "            for c in sorted(cell_list):", "            for c in cell_list:"))
V("det-jacobian-ufl-id", ["C12", "C13"], D, "fire",
  (SYM, "        return L.Symbol(format_mt_name(f\"J{number}\", mt), dtype=L.DataType.REAL)", "        return L.Symbol(format_mt_name(f\"J{domain.ufl_id()}\", mt), dtype=L.DataType.REAL)"))
V("det-temp-symbol-id", ["C12"], D, "fire",
  (IG, "        name = f\"{basename}{self.symbol_counters[basename]:d}\"\n        self.symbol_counters[basename] += 1\n        return L.Symbol(name, dtype=L.DataType.SCALAR)\n\n    def get_temp_symbol",
       "        name = f\"{basename}{id(self) % 1000:d}\"\n        self.symbol_counters[basename] += 1\n        return L.Symbol(name, dtype=L.DataType.SCALAR)\n\n    def get_temp_symbol"))
V("det-noargs-mutated", ["C12"], D, "fire",
  (FAC, "                graph_insert(F, v)\n                factors = noargs\n", "                graph_insert(F, v)\n                factors = noargs\n                noargs[si] = v\n"))
V("det-codeblocks-set-of-names", ["C12"], D, "fire",
  (CG, "        for domain in set(i[0] for i in integral_ir.expression.integrand.keys())", "        for domain in set(i[0].name for i in integral_ir.expression.integrand.keys())"))
V("det-mutable-default-mutated", ["C12"], D, "fire",
  (JIT, "    p = ffcx.options.get_options(options)\n\n    # If requested, replace bi-linear forms by their diagonal part", "    options[\"seen\"] = True\n    p = ffcx.options.get_options(options)\n\n    # If requested, replace bi-linear forms by their diagonal part"))
V("det-benign-sorted-set", ["C12"], D, "benign", (OPT, "    input = list(dict.fromkeys(input))", "    input = sorted(set(input), key=lambda s: s.name)"))
V("det-benign-set-membership", ["C12"], D, "benign",
  (IG, "        # Make sure we don't have repeated symbols in input (keeping order:", "        _seen = set(input)\n        assert len(_seen) <= len(input)\n        # Make sure we don't have repeated symbols in input (keeping order:"))
V("det-benign-set-to-set", ["C12"], D, "benign",
  (IRI, "    active_tables: dict[str, npt.NDArray[np.float64]] = {}\n", "    _referenced = set()\n    for _n in active_table_names:\n        _referenced.add(_n)\n    active_tables: dict[str, npt.NDArray[np.float64]] = {}\n"))

S = ["ORDER-TAINT", "HISTORY-ID", "SIG-COMPLETE", "SIG-INJECTIVE", "NAME-KEY", "DIGEST-WIDTH"]
V("sig-drop-version", ["C13"], S, "fire", (NAM, "        str(ffcx.__version__),\n", ""))
V("sig-drop-tag", ["C13"], S, "fire", (NAM, "        kind,\n        tag,\n    ]", "        kind,\n    ]"))
V("sig-drop-header-hash", ["C13"], S, "fire", (NAM, "        ffcx.codegeneration.get_signature(),\n", ""))
V("sig-repr-points", ["C13"], S, "fire",
  (NAM, "            object_signature += str(_points.shape)\n            object_signature += hashlib.sha1(_points.tobytes()).hexdigest()\n", "            object_signature += repr(_points)\n"))
V("sig-points-no-shape", ["C13"], S, "fire", (NAM, "            object_signature += str(_points.shape)\n", ""))
V("sig-no-domain-renumbering", ["C13"], S, "fire", (NAM, "            rn.update(dict((d, i) for i, d in enumerate(domains)))\n", ""))
V("sig-options-subset", ["C13"], S, "fire",
  (JIT, "    return str(sorted(options.items()))", "    return str(sorted((k, v) for k, v in options.items() if k != \"table_atol\"))"))
V("sig-no-compile-args", ["C13"], S, "fire",
  (JIT, "        _compute_option_signature(p) + _compilation_signature(cffi_extra_compile_args, cffi_debug),\n    )\n\n    form_names", "        _compute_option_signature(p),\n    )\n\n    form_names"))
V("sig-truncated", ["C13"], S, "fire", (NAM, "    return hashlib.sha1(string.encode(\"utf-8\")).hexdigest()", "    return hashlib.sha1(string.encode(\"utf-8\")).hexdigest()[:8]"))
V("sig-integral-name-no-index", ["C13", "C19"], S, "fire", (REP, "                prefix,\n                itg_index,\n            )", "                prefix,\n            )"))
V("sig-rule-id-3", ["C13", "C19"], S, "fire", (RU, "        return self.hash_obj.hexdigest()[-10:]", "        return self.hash_obj.hexdigest()[-3:]"))
V("sig-extract-type-set", ["C13"], S, "fire",
  (NAM, "            for gc in ufl.corealg.traversal.unique_pre_traversal(expr):\n                if isinstance(gc, ufl.classes.GeometricQuantity):\n                    domains.append(*ufl.domain.extract_domains(gc))",
        "            for gc in ufl.algorithms.analysis.extract_type(expr, ufl.classes.GeometricQuantity):\n                domains.append(*ufl.domain.extract_domains(gc))"))
V("sig-benign-local-copy", ["C13"], S, "benign", (JIT, "    return str(sorted(options.items()))", "    opts = dict(options)\n    return str(sorted(opts.items()))"))
V("sig-benign-tolist", ["C13"], S, "benign",
  (NAM, "            object_signature += hashlib.sha1(_points.tobytes()).hexdigest()\n", "            object_signature += str(_points.tolist())\n"))

# ---- C19 -------------------------------------------------------------------------------------------
R = ["FAIL-CLOSED", "CLOSED-DOMAINS", "STALE-LOOPVAR", "STMT-TERM", "NAME-KEY", "DIGEST-WIDTH", "PAIR-TEMPLATES"]
V("rob-ufl-to-lnodes-default", ["C19"], R, "fire",
  (LN, "    else:\n        raise RuntimeError(f\"Missing lookup for expr type {optype}.\")", "    else:\n        return LiteralFloat(0.0)"))
V("rob-reconstruct-fallthrough", ["C19"], R, "fire",
  (REC := "ffcx/ir/analysis/reconstruct.py", "        # Nothing found\n        raise RuntimeError(f\"Not expecting expression of type {type(o)} in here.\")", "        # Nothing found\n        return [o]"))
V("rob-access-get-none", ["C19"], R, "fire",
  ("ffcx/codegeneration/access.py", "        else:\n            raise RuntimeError(f\"Not handled: {type(e)}\")", "        else:\n            return None"))
V("rob-definitions-no-handler", ["C19"], R, "fire",
  ("ffcx/codegeneration/definitions.py", "        if handler is None:\n            raise NotImplementedError(f\"No handler for terminal type: {ttype}\")\n", "        if handler is None:\n            return []\n"))
V("rob-write-table-default", ["C19"], R, "fire",
  ("ffcx/codegeneration/geometry.py", "    raise ValueError(f\"Unknown geometry table name: {tablename}\")", "    return facet_orientation(tablename, cellname)"))
V("rob-entity-type-missing", ["C19", "C02"], R, "fire",
  (SYM, "        elif entity_type == \"ridge\":\n            return self.entity_local_index[0]\n", ""))
V("rob-entity-table-wrong", ["C19", "C02"], R, "fire", (REP, "        \"interior_facet\": \"facet\",", "        \"interior_facet\": \"cell\","))
V("rob-stale-table", ["C19"], R, "fire",
  (ET, "                    else:\n                        raise RuntimeError(\n                            f\"Facet quadrature permutations are not supported for cell {cell_type}.\"\n                        )\n", ""))
V("rob-stale-new-branch", ["C19"], R, "fire",
  (ET, "        if is_new_table:\n            _existing_tables[name] = tbl\n", "        if is_new_table:\n            _existing_tables[name] = tbl\n            first_name = name\n        if avg:\n            name = first_name\n"))
V("rob-carried-cell-type", ["C19", "C11"], R, "fire",
  (REP, "        for rule_cell_type, (points, weights, tensor_factors) in rules.items():\n            points = np.asarray(points)\n            weights = np.asarray(weights)\n            rule = QuadratureRule(points, weights, tensor_factors)\n\n            if rule_cell_type not in grouped_integrands:\n                grouped_integrands[rule_cell_type] = {}\n            if rule not in grouped_integrands[rule_cell_type]:\n                grouped_integrands[rule_cell_type][rule] = []\n            grouped_integrands[rule_cell_type][rule].append(integral.integrand())",
        "        for cell_type, (points, weights, tensor_factors) in rules.items():\n            points = np.asarray(points)\n            weights = np.asarray(weights)\n            rule = QuadratureRule(points, weights, tensor_factors)\n\n            if cell_type not in grouped_integrands:\n                grouped_integrands[cell_type] = {}\n            if rule not in grouped_integrands[cell_type]:\n                grouped_integrands[cell_type][rule] = []\n            grouped_integrands[cell_type][rule].append(integral.integrand())"))
V("rob-benign-match-default", ["C19"], R, "benign",
  (LN, "    else:\n        raise RuntimeError(f\"Missing lookup for expr type {optype}.\")", "    else:\n        msg = f\"Missing lookup for expr type {optype}.\"\n        raise RuntimeError(msg)"))
V("rob-benign-loop-temp", ["C19"], R, "benign",
  (ET, "        # Clean up table\n        tbl = clamp_table_small_numbers(t[\"array\"], rtol=rtol, atol=atol)", "        # Clean up table\n        raw = t[\"array\"]\n        if codim == 0:\n            raw = raw.copy()\n        tbl = clamp_table_small_numbers(raw, rtol=rtol, atol=atol)"))

# ---- C20 -------------------------------------------------------------------------------------------
MAINP = "ffcx/main.py"
OPTS = "ffcx/options.py"
CL = ["OPT-PRECEDENCE", "CLI-SENTINEL", "PAIR-TEMPLATES", "SUFFIX-ARITY", "SINGLE-PIPELINE", "ALIAS-NAMES"]
V("cli-update-order", ["C20"], CL, "fire",
  (OPTS, "    options.update(user_options)\n    options.update(pwd_options)\n", "    options.update(pwd_options)\n    options.update(user_options)\n"))
V("cli-priority-first", ["C20"], CL, "fire",
  (OPTS, "    options.update(user_options)\n    options.update(pwd_options)\n    if priority_options is not None:\n        options.update(priority_options)\n",
         "    if priority_options is not None:\n        options.update(priority_options)\n    options.update(user_options)\n    options.update(pwd_options)\n"))
V("cli-load-order-swapped", ["C20"], CL, "fire", (OPTS, "    return (user_options, pwd_options)", "    return (pwd_options, user_options)"))
V("cli-store-true-default", ["C20"], CL, "fire", (MAINP, "            action=\"store_true\",\n            default=None,\n", "            action=\"store_true\",\n"))
V("cli-filter-removed", ["C20"], CL, "fire",
  (MAINP, "    priority_options = {k: v for k, v in xargs.__dict__.items() if v is not None}", "    priority_options = dict(xargs.__dict__)"))
V("cli-extern-without-definition", ["C20", "C19"], CL, "fire",
  ("ffcx/codegeneration/C/form_template.py", "// Alias name\nufcx_form* {name_from_uflfile} = &{factory_name};\n", "// Alias name\n"))
V("cli-alias-from-index", ["C20"], CL, "fire",
  (REP, "    form_name = object_names.get(id(form_data.original_form), form_id)", "    form_name = object_names.get(id(form_data), form_id)"))
V("cli-header-name-mismatch", ["C20"], CL, "fire",
  ("ffcx/codegeneration/C/expression.py", "        factory_name=factory_name, name_from_uflfile=ir.name_from_uflfile\n    )", "        factory_name=factory_name, name_from_uflfile=ir.expression.name\n    )"))
V("cli-numba-two-files", ["C20", "C18"], CL, "fire", ("ffcx/codegeneration/numba/file.py", "suffixes = (\"_numba.py\",)", "suffixes = (\".h\", \"_numba.py\")"))
V("cli-codeblocks-order", ["C20"], CL, "fire",
  (CG, "    file_pre: list[tuple[str, str]]\n    integrals: list[tuple[str, str]]\n    forms: list[tuple[str, str]]\n", "    file_pre: list[tuple[str, str]]\n    forms: list[tuple[str, str]]\n    integrals: list[tuple[str, str]]\n"))
V("cli-generator-swapped-return", ["C20"], CL, "fire", ("ffcx/codegeneration/C/integral.py", "    return declaration, implementation", "    return implementation, declaration"))
V("cli-benign-vars", ["C20"], CL, "benign",
  (MAINP, "    priority_options = {k: v for k, v in xargs.__dict__.items() if v is not None}", "    priority_options = {k: v for k, v in vars(xargs).items() if v is not None}"))
V("cli-benign-comment", ["C20"], CL, "benign", (OPTS, "    options.update(user_options)\n", "    # user file first\n    options.update(user_options)\n"))
