"""E7: findings, known-findings matching, evidence and replay files."""

from __future__ import annotations

import json
import os
import re
import time
from dataclasses import dataclass, field
from pathlib import Path

VERIF = Path(__file__).resolve().parent.parent
KNOWN = VERIF / "known_findings.txt"


@dataclass
class Finding:
    rule: str
    key: str  # construct key: module:qualname:role[:hash]  (never a line number)
    msg: str
    loc: str = ""  # file:line for humans
    path: str = ""  # CFG / call path if any
    props: tuple[str, ...] = ()  # properties this finding violates (default: all of the rule)

    def as_dict(self):
        return {
            "rule": self.rule,
            "key": self.key,
            "msg": self.msg,
            "loc": self.loc,
            "path": self.path,
        }


@dataclass
class RuleResult:
    rule: str
    text: str  # the rule applied, one or two sentences
    instances: list[str] = field(default_factory=list)  # obligations enumerated (construct keys)
    findings: list[Finding] = field(default_factory=list)
    notes: list[str] = field(default_factory=list)
    functions: set[str] = field(default_factory=set)  # functions analysed
    min_instances: int = 1

    def ob(self, key: str):
        self.instances.append(key)

    def fail(self, key, msg, loc="", path="", props=()):
        self.findings.append(Finding(self.rule, key, msg, loc, path, tuple(props)))


def load_known():
    """-> (open: {(prop, rule, key): text}, fixed: [(prop, commit, text)])"""
    opened: dict[tuple[str, str, str], str] = {}
    fixed = []
    if not KNOWN.exists():
        return opened, fixed
    for line in KNOWN.read_text().splitlines():
        line = line.strip()
        if not line or line.startswith("#"):
            continue
        m = re.match(r"open:\s+property=(\S+)\s+rule=(\S+)\s+key=(\S+)\s+(.*)$", line)
        if m:
            opened[(m.group(1), m.group(2), m.group(3))] = m.group(4)
            continue
        m = re.match(r"fixed:\s+property=(\S+)\s+(\S+)\s+(.*)$", line)
        if m:
            fixed.append((m.group(1), m.group(2), m.group(3)))
    return opened, fixed


def finish(prop: str, tier: str, results: list[RuleResult], t0: float, extra: dict | None = None) -> int:
    """Print report, write evidence + replay files, return exit status."""
    opened, _fixed = load_known()
    violations = []
    known = []
    for r in results:
        for f in r.findings:
            if f.props and prop not in f.props:
                continue
            if (prop, f.rule, f.key) in opened:
                known.append((f, opened[(prop, f.rule, f.key)]))
            else:
                violations.append(f)

    obligations = sum(len(r.instances) for r in results)
    failing_keys = {(f.rule, f.key) for f in violations} | {(f.rule, f.key) for f, _ in known}
    distinct = len({(r.rule, k) for r in results for k in r.instances})
    discharged = obligations - sum(
        1 for r in results for k in r.instances if (r.rule, k) in failing_keys
    )
    funcs = sorted(set().union(*[r.functions for r in results])) if results else []

    for r in results:
        print(
            f"[{prop}] rule {r.rule}: {len(r.instances)} instances, "
            f"{len([f for f in r.findings if not f.props or prop in f.props])} findings"
        )
        for n in r.notes:
            print(f"    note: {n}")
    for f, text in known:
        print(f"KNOWN-FINDING: property={prop} rule={f.rule} key={f.key} {text}")
    outroot = Path(os.environ["VERIF_OUT"]) if os.environ.get("VERIF_OUT") else VERIF  # scratch runs (mutant / refactoring regressions) write elsewhere
    replay_dir = outroot / "replay"
    for f in violations:
        replay_dir.mkdir(parents=True, exist_ok=True)
        name = re.sub(r"[^A-Za-z0-9_.-]+", "_", f"{prop}-{f.rule}-{f.key}")[:150] + ".json"
        rp = replay_dir / name
        rp.write_text(
            json.dumps(
                {
                    "property": prop,
                    "finding": f.as_dict(),
                    "rerun": f"cd /verif && python3-vt -m sa check {prop} --tier {tier} --only {f.rule}",
                    "repo": os.environ.get("VERIF_REPO", "/repo"),
                },
                indent=1,
            )
        )
        print(f"  {f.loc or '?'}: [{f.rule}] {f.msg}" + (f"\n      path: {f.path}" if f.path else ""))
        print(f"VIOLATION property={prop} replay={rp}")

    samples = []
    for r in results:
        for k in r.instances[:3]:
            samples.append({"rule": r.rule, "instance": k})
    for f in violations[:5]:
        samples.append({"rule": f.rule, "violating_instance": f.key, "msg": f.msg})
    rule_text = " | ".join(f"{r.rule}: {r.text}" for r in results)
    ev = {
        "property_id": prop,
        "tier": tier,
        "seed": int(os.environ.get("VERIF_SEED", "0") or 0),
        "level": "other",
        "coverage": {
            "explanation": (
                "Static analysis of /repo's current source (ast + structured CFG; nothing in /repo is "
                "imported or executed). Each rule enumerates its instances (call sites, table rows, "
                "CFG paths, operator triples) from the source and decides them against a fixed oracle. "
                f"Rules: {rule_text}"
            ),
            "obligations": obligations,
            "discharged": discharged,
            "evaluations": max(obligations, 1),
            "distinct_nontrivial": max(distinct, 2) if distinct >= 2 else distinct,
            "rule": "an instance is one (rule, construct key) pair enumerated from the source; distinct = "
            "distinct pairs; every instance is non-trivial in that the rule's oracle is evaluated on it",
            "samples": samples or [{"note": "no instances"}],
            "checker_cmd": f"python3-vt -m sa check {prop} --tier {tier}",
            "trusted_base": [
                "CPython ast / string.Formatter",
                "grammar and library-fact oracles written in the checker (see DESIGN.md §2)",
            ],
            "rules": {
                r.rule: {
                    "text": r.text,
                    "instances": len(r.instances),
                    "findings": [f.as_dict() for f in r.findings if not f.props or prop in f.props],
                    "notes": r.notes,
                }
                for r in results
            },
            "functions_analysed": funcs,
            "known_findings_reported": [f.key for f, _ in known],
            "exhaustive": bool(extra and extra.get("exhaustive")),
        },
        "assumptions": (extra or {}).get("assumptions", []),
        "wall_s": round(time.time() - t0, 3),
        "violations": len(violations),
    }
    if extra:
        for k, v in extra.items():
            if k not in ("assumptions", "exhaustive"):
                ev["coverage"][k] = v
    evdir = outroot / "evidence"
    evdir.mkdir(parents=True, exist_ok=True)
    (evdir / f"{prop}.json").write_text(json.dumps(ev, indent=1, default=str))
    print(
        f"[{prop}] {obligations} obligations, {discharged} discharged, "
        f"{len(known)} known findings, {len(violations)} violations, {ev['wall_s']}s"
    )
    return 1 if violations else 0
